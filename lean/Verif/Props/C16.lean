/-
  C16 — property theorems (only statements + short proofs; helper lemmas live in Lemmas/C16).
  Every theorem is about the executable model in `Verif.Model.C16`, which the correspondence check
  ties to `lumicks/pylake/population/detail/hmm.py` and `population/dwelltime.py` on every run.
-/
import Verif.Lemmas.C16
import Verif.Lemmas.C16EM
import Verif.Lemmas.C16FR

namespace Verif.C16
open Verif.Py

/-! ## Viterbi decoding is optimal -/

/-- The decoded path has the right length, uses states `0..k` only, and its joint log-score is at
    least the score of **every** state path of that length over the states `0..k` — also when
    `log π` or `log A` contain `-inf` (`Score.ninf`): a `-inf` path is below every finite one, and if
    no path is finite every path (hence the decoded one) is optimal. -/
theorem viterbi_optimal (k : Nat) (logPi : List Score) (logA : List (List Score))
    (B : List (List Score)) (hB : B ≠ []) (q : List Nat) (hq : q.length = B.length)
    (hqk : ∀ s ∈ q, s ≤ k) :
    ∃ v w, score logPi logA B q = some v ∧
      score logPi logA B (viterbi k logPi logA B) = some w ∧ v ≤ w ∧
      (viterbi k logPi logA B).length = B.length ∧ ∀ s ∈ viterbi k logPi logA B, s ≤ k :=
  viterbi_optimal_aux k logPi logA B hB q hq hqk

/-- Non-vacuity (two states, `π = (1, 0)`, the transition `0 → 1` impossible): the decoder returns
    `[0, 0, 0]` although every emission favours state 1, and the competitor `[0, 1, 1]` scores `-inf`. -/
example :
    viterbi 1 [.fin 0, .ninf] [[.fin (-1), .ninf], [.fin (-1), .fin (-1)]]
      [[.fin (-5), .fin (-1)], [.fin (-5), .fin (-1)], [.fin (-5), .fin (-1)]] = [0, 0, 0] ∧
    score [.fin 0, .ninf] [[.fin (-1), .ninf], [.fin (-1), .fin (-1)]]
      [[.fin (-5), .fin (-1)], [.fin (-5), .fin (-1)], [.fin (-5), .fin (-1)]] [0, 1, 1] = some .ninf ∧
    score [.fin 0, .ninf] [[.fin (-1), .ninf], [.fin (-1), .fin (-1)]]
      [[.fin (-5), .fin (-1)], [.fin (-5), .fin (-1)], [.fin (-5), .fin (-1)]] [0, 0, 0]
      = some (.fin (-17)) := by decide +kernel

/-! ## Dwell extraction -/

/-- With `exclude_ambiguous_dwells=False` the index pairs computed for a state through the padded
    mask differences are exactly the runs of that state in the run-length encoding of the path (no
    error is raised); the run-length encoding consists of non-empty runs that are contiguous from `0`
    to `T` (pairwise disjoint, tiling `[0, T)`), neighbouring runs differ in state (every run is
    maximal) and writing the runs out again gives the path (every run is constant, every sample is in
    exactly one run). -/
theorem dwells_partition (path : List Int) (s : Int) :
    dwellRanges path false s = some (((rle path).filter (fun r => r.state = s)).map Run.range) ∧
    Contig 0 path.length (rle path) ∧ AdjDiff (rle path) ∧ expand (rle path) = path :=
  ⟨dwellRanges_false path s, by simpa [rle] using contig_rleFrom path 0, adjDiff_rleFrom path 0,
    expand_rleFrom path 0⟩

/-- The same in index terms: every sample lies in a run, the runs are pairwise disjoint (and
    ordered), and the path is constant on every run — "tile the trace exactly once". -/
theorem dwells_tile (path : List Int) :
    (∀ i, i < path.length → ∃ r ∈ rle path, r.start ≤ i ∧ i < r.stop) ∧
    (rle path).Pairwise (fun r r' => r.stop ≤ r'.start) ∧
    (∀ r ∈ rle path, ∀ i, r.start ≤ i → i < r.stop → path[i]? = some r.state) := by
  have hc : Contig 0 path.length (rle path) := (dwells_partition path 0).2.1
  refine ⟨fun i hi => contig_cover _ _ _ hc i (Nat.zero_le _) hi, contig_pairwise _ _ _ hc, ?_⟩
  intro r hr i h1 h2
  have := contig_constant _ _ _ hc r hr i h1 h2
  rwa [(dwells_partition path 0).2.2.2, Nat.sub_zero] at this

/-- With `exclude_ambiguous_dwells=True` exactly the first and the last run of the trace are missing
    (nothing is left of a constant trace). -/
theorem dwells_exclude_ends (path : List Int) (s : Int) (hs : s ∈ path) :
    dwellRanges path true s
      = some ((((rle path).tail.dropLast).filter (fun r => r.state = s)).map Run.range) := by
  unfold dwellRanges
  rw [maskOf_padded]
  have := (D_spec s path 0).1
  unfold D at this
  rw [this, pairUp_flat]
  simp only [if_true]
  exact excl_list s path.length (rle path) (by simpa [rle] using contig_rleFrom path 0)
    (sRuns_ne_nil_of_mem s path 0 hs)

/-- Non-vacuity of `hs`, and an instance. -/
example : (1 : Int) ∈ [0, 0, 1, 1, 1, 0, 2] ∧
    dwellRanges [0, 0, 1, 1, 1, 0, 2] true 0 = some [(5, 6)] ∧
    dwellRanges [0, 0, 1, 1, 1, 0, 2] false 0 = some [(0, 2), (5, 6)] ∧
    dwellRanges [3, 3, 3] true 3 = some [] := by decide

/-- The keys of the returned dictionaries are the states that occur (`np.unique`). -/
theorem dwells_keys (path : List Int) (s : Int) : s ∈ uniq path ↔ s ∈ path := mem_uniq s path

/-- The whole dictionary, both modes: never an error, one entry per occurring state. -/
theorem dwells_all (path : List Int) (exclude : Bool) :
    dwells path exclude = some ((uniq path).map fun s =>
      (s, (((if exclude then (rle path).tail.dropLast else rle path).filter
        (fun r => r.state = s)).map Run.range))) := by
  unfold dwells
  apply mapM_some
  intro s hs
  cases exclude with
  | false => simp [(dwells_partition path s).1]
  | true => simp [dwells_exclude_ends path s ((dwells_keys path s).mp hs)]

/-- **Conservation of samples.**  The dwell counts returned for all states together add up to the
    total length of the runs kept: with `exclude_ambiguous_dwells=False` that is the length of the
    trace (every sample is counted exactly once); with `True` it is the trace length minus the
    lengths of the first and the last run. -/
theorem dwell_counts_conserve (path : List Int) (exclude : Bool) (d : List (Int × List (Nat × Nat)))
    (h : dwells path exclude = some d) :
    totalCounts d = ((if exclude then (rle path).tail.dropLast else rle path).map Run.len).sum ∧
    ((rle path).map Run.len).sum = path.length ∧
    (exclude = false → totalCounts d = path.length) ∧
    (∀ f mid l, rle path = f :: (mid ++ [l]) → exclude = true →
      totalCounts d + f.len + l.len = path.length) := by
  have hc : Contig 0 path.length (rle path) := (dwells_partition path 0).2.1
  have hT : ((rle path).map Run.len).sum = path.length := by
    have := contig_sum_len _ _ _ hc; simpa using this
  rw [dwells_all path exclude, Option.some.injEq] at h
  have hsub : ∀ r ∈ (if exclude then (rle path).tail.dropLast else rle path), r.state ∈ uniq path := by
    intro r hr
    apply (dwells_keys path r.state).mpr
    apply rle_state_mem path r
    cases exclude with
    | false => simpa using hr
    | true => exact List.mem_of_mem_tail (List.mem_of_mem_dropLast (by simpa using hr))
  have e1 : totalCounts d
      = ((if exclude then (rle path).tail.dropLast else rle path).map Run.len).sum := by
    rw [← h, ← sum_by_state (uniq path) (uniq_nodup path) _ hsub]
    simp only [totalCounts, List.map_map, Function.comp_def, dwellCounts_sum]
  refine ⟨e1, hT, ?_, ?_⟩
  · intro he; rw [e1, he]; simpa using hT
  · intro f mid l hr he
    subst he
    rw [e1]
    simp only [if_true, hr, List.tail_cons, List.dropLast_concat]
    rw [hr] at hT
    simp only [List.map_cons, List.map_append, List.sum_cons, List.sum_append, List.map_nil, List.sum_nil] at hT
    omega

/-- Non-vacuity: a trace of seven samples with four runs; all counts together give 7, with the
    ambiguous dwells excluded `7 - 2 - 1 = 4`. -/
example : ∃ d d', dwells [0, 0, 1, 1, 1, 0, 2] false = some d ∧ totalCounts d = 7 ∧
    dwells [0, 0, 1, 1, 1, 0, 2] true = some d' ∧ totalCounts d' = 4 ∧
    rle [0, 0, 1, 1, 1, 0, 2] = ⟨0, 0, 2⟩ :: ([⟨1, 2, 5⟩, ⟨0, 5, 6⟩] ++ [⟨2, 6, 7⟩]) :=
  ⟨_, _, rfl, by decide, rfl, by decide, by decide⟩

/-- **Argument check and error branches of `_dwellcounts_from_statepath`**: a path with a NaN label
    fails the `isfinite` assertion; every other path (the empty one included) gives the dictionary
    of `dwells_all` — `IndexError` / `ValueError` from the index arithmetic never occur. -/
theorem dwellsChecked_spec (path : List (Option Int)) (exclude : Bool) :
    (none ∈ path ∧ dwellsChecked path exclude = .error "Error:AssertionError") ∨
    (∃ p : List Int, path = p.map some ∧
      dwellsChecked path exclude = .ok ((uniq p).map fun s =>
        (s, (((if exclude then (rle p).tail.dropLast else rle p).filter
          (fun r => r.state = s)).map Run.range)))) := by
  rcases all_some_or_none path with ⟨p, rfl⟩ | h
  · right
    refine ⟨p, rfl, ?_⟩
    simp only [dwellsChecked, mapM_id_some, dwells_all]
  · left
    exact ⟨h, by simp only [dwellsChecked, mapM_id_none path h]⟩

/-- **Argument check of `HiddenMarkovModel.__init__`**: accepted exactly for no initial guess or a
    model (GMM / HMM) with the requested number of states; `ValueError` for another number of
    states, `TypeError` for anything else. -/
theorem initCheck_spec (n : Nat) (g : Guess) :
    (initCheck n g = none ↔ (g = .none ∨ g = .gmm n ∨ g = .hmm n)) ∧
    (initCheck n g = some "ValueError" ↔ ∃ m, m ≠ n ∧ (g = .gmm m ∨ g = .hmm m)) ∧
    (initCheck n g = some "TypeError" ↔ g = .other) := by
  cases g with
  | none => simp [initCheck]
  | other => simp [initCheck]
  | gmm m =>
    by_cases h : m = n
    · subst h; simp [initCheck]
    · simp [initCheck, h]
  | hmm m =>
    by_cases h : m = n
    · subst h; simp [initCheck]
    · simp [initCheck, h]

/-! ## Forward–backward -/

/-- The product of the scaling factors is the exact likelihood `Σ_paths P(path, y)` (all `K^T` state
    paths), so the reported `Σ log c_t` is the logarithm of the exact likelihood. -/
theorem likelihood_exact (K : Nat) (pi : Nat → Rat) (A : Nat → Nat → Rat) (B : List Vec) (r : FB)
    (h : forwardBackward K pi A B = some r) (hc : ∀ s ∈ r.steps, s.c ≠ 0) :
    r.likelihood = likelihoodSpec K pi A B := by
  cases B with
  | nil => simp [forwardBackward] at h
  | cons b0 bs =>
    simp only [forwardBackward, Option.some.injEq] at h
    subst h
    simp only [FB.likelihood]
    exact likelihood_paths K pi A b0 bs (hc _ (by simp)) (fun s hs => hc s (by simp [hs]))

/-- `Σ_i γ_t(i) = 1` at every time point. -/
theorem gamma_normalised (K : Nat) (pi : Nat → Rat) (A : Nat → Nat → Rat) (B : List Vec) (r : FB)
    (h : forwardBackward K pi A B = some r) (hc : ∀ s ∈ r.steps, s.c ≠ 0) :
    r.gammas.length = B.length ∧ ∀ g ∈ r.gammas, sumK K (atR g) = 1 := by
  cases B with
  | nil => simp [forwardBackward] at h
  | cons b0 bs =>
    simp only [forwardBackward, Option.some.injEq] at h
    subst h
    have hc0 : (initStep K pi b0).c ≠ 0 := hc _ (by simp)
    refine ⟨smooth_gammas_length K A bs (initStep K pi b0), ?_⟩
    exact (smooth_gamma K A bs (initStep K pi b0) (normStep_sum K _ _ hc0)
      (fun s hs => hc s (by simp [hs]))).2

/-- `Σ_j ξ_t(i, j) = γ_t(i)` for every `t < T-1` and every state `i` (as an equality of the lists over
    `t` of the vectors over `i`). -/
theorem xi_marginal (K : Nat) (pi : Nat → Rat) (A : Nat → Nat → Rat) (B : List Vec) (r : FB)
    (h : forwardBackward K pi A B = some r) :
    r.xis.map (rowSums K) = r.gammas.dropLast := by
  cases B with
  | nil => simp [forwardBackward] at h
  | cons b0 bs =>
    simp only [forwardBackward, Option.some.injEq] at h
    subst h
    exact smooth_xi K A _ _

/-- The M-step keeps `π'` and every row of `A'` normalised (a row whose state is never occupied
    before the last time point, `Σ_{t<T-1} γ_t(i) = 0`, is `0/0` in the code and excluded here). -/
theorem update_normalised (K : Nat) (pi : Nat → Rat) (A : Nat → Nat → Rat) (B : List Vec) (r : FB)
    (h : forwardBackward K pi A B = some r) (hc : ∀ s ∈ r.steps, s.c ≠ 0) :
    sumK K (atR (updPi r.gammas)) = 1 ∧
    ∀ i, i < K → sumT r.gammas.dropLast (fun g => atR g i) ≠ 0 →
      sumK K (atR ((updA K r.gammas r.xis).getD i [])) = 1 := by
  obtain ⟨hlen, hg⟩ := gamma_normalised K pi A B r h hc
  refine ⟨?_, fun i hi hD => updA_row_sum K r.gammas r.xis (xi_marginal K pi A B r h) i hi hD⟩
  cases hgs : r.gammas with
  | nil =>
    cases B with
    | nil => simp [forwardBackward] at h
    | cons b0 bs => rw [hgs] at hlen; simp at hlen
  | cons g gs => exact hg g (by rw [hgs]; simp)

/-- ext `gamma_exact`: `γ_t(i) · L` is the sum of `P(path, y)` over all paths with `s_t = i`, i.e. the
    state posterior is exact (`L` = the exact likelihood by `likelihood_exact`). -/
theorem gamma_exact (K : Nat) (pi : Nat → Rat) (A : Nat → Nat → Rat) (B : List Vec) (r : FB)
    (h : forwardBackward K pi A B = some r) (hc : ∀ s ∈ r.steps, s.c ≠ 0)
    (t : Nat) (ht : t < B.length) (i : Nat) (hi : i < K) :
    atR (r.gammas.getD t []) i * r.likelihood = pinnedSpec K pi A B t i := by
  cases B with
  | nil => simp [forwardBackward] at h
  | cons b0 bs =>
    simp only [forwardBackward, Option.some.injEq] at h
    subst h
    simp only [FB.likelihood]
    exact gamma_exact_aux K pi A b0 bs (hc _ (by simp)) (fun s hs => hc s (by simp [hs])) t ht i hi

/-- ext `xi_exact`: `ξ_t(i,j) · L` is the sum of `P(path, y)` over all paths with `s_t = i`,
    `s_{t+1} = j`. -/
theorem xi_exact (K : Nat) (pi : Nat → Rat) (A : Nat → Nat → Rat) (B : List Vec) (r : FB)
    (h : forwardBackward K pi A B = some r) (hc : ∀ s ∈ r.steps, s.c ≠ 0)
    (t : Nat) (ht : t + 1 < B.length) (i j : Nat) (hi : i < K) (hj : j < K) :
    atR (((r.xis.getD t []).getD i [])) j * r.likelihood = pinned2Spec K pi A B t i j := by
  cases B with
  | nil => simp [forwardBackward] at h
  | cons b0 bs =>
    simp only [forwardBackward, Option.some.injEq] at h
    subst h
    simp only [FB.likelihood]
    exact xi_exact_aux K pi A b0 bs (hc _ (by simp)) (fun s hs => hc s (by simp [hs])) t ht i j hi hj

/-! ## Deepening round D: the code establishes the hypotheses of the theorems above -/

/-- For every model whose parameters are probability weights (`π ≥ 0` with a positive total, `A ≥ 0`
    with a positive total in every row — zero entries allowed) and whose emission densities are
    positive (every Gaussian density is), **every scaling factor `c_t` the forward pass computes is
    positive**: the hypothesis `c_t ≠ 0` of `likelihood_exact`, `gamma_normalised`, `gamma_exact`,
    `xi_exact`, `update_normalised` is established by the code itself. -/
theorem scaling_positive (K : Nat) (pi : Nat → Rat) (A : Nat → Nat → Rat) (B : List Vec) (r : FB)
    (h : forwardBackward K pi A B = some r) (hp : posModel K pi A B = true) :
    ∀ s ∈ r.steps, 0 < s.c := by
  cases B with
  | nil => simp [forwardBackward] at h
  | cons b0 bs =>
    simp only [forwardBackward, Option.some.injEq] at h
    subst h
    exact (fb_pos K pi A b0 bs hp).1

/-- Under the same conditions the posteriors are probabilities: `γ_t(i) ≥ 0`, `ξ_t(i,j) ≥ 0`
    (with `gamma_normalised`: every `γ_t` is a distribution over the states). -/
theorem posteriors_nonneg (K : Nat) (pi : Nat → Rat) (A : Nat → Nat → Rat) (B : List Vec) (r : FB)
    (h : forwardBackward K pi A B = some r) (hp : posModel K pi A B = true) :
    (∀ g ∈ r.gammas, ∀ i, i < K → 0 ≤ atR g i) ∧
    (∀ x ∈ r.xis, ∀ i j, i < K → j < K → 0 ≤ atR (x.getD i []) j) := by
  cases B with
  | nil => simp [forwardBackward] at h
  | cons b0 bs =>
    simp only [forwardBackward, Option.some.injEq] at h
    subst h
    exact ⟨(fb_pos K pi A b0 bs hp).2.1, (fb_pos K pi A b0 bs hp).2.2.1⟩

/-- A state that is possible initially (`π_i > 0`) has positive occupancy before the last time point
    as soon as the trace has two samples: the denominator of row `i` of the updated transition
    matrix is not zero. -/
theorem occupancy_positive (K : Nat) (pi : Nat → Rat) (A : Nat → Nat → Rat) (B : List Vec) (r : FB)
    (h : forwardBackward K pi A B = some r) (hp : posModel K pi A B = true) (hT : 2 ≤ B.length)
    (i : Nat) (hi : i < K) (hpi : 0 < pi i) : 0 < occupancy r.gammas i := by
  obtain ⟨hlen, _⟩ := gamma_normalised K pi A B r h
    (fun s hs => ne_of_gt (scaling_positive K pi A B r h hp s hs))
  have hnn := (posteriors_nonneg K pi A B r h hp).1
  have hhead : 0 < atR (r.gammas.headD []) i := by
    cases B with
    | nil => simp [forwardBackward] at h
    | cons b0 bs =>
      simp only [forwardBackward, Option.some.injEq] at h
      subst h
      exact (fb_pos K pi A b0 bs hp).2.2.2 i hi hpi
  match hg : r.gammas, hlen, hnn, hhead with
  | [], hlen, _, _ => simp at hlen; omega
  | [_], hlen, _, _ => simp at hlen; omega
  | g0 :: g1 :: gs, _, hnn, hhead =>
    simp only [occupancy, sumT, List.dropLast_cons_cons, List.map_cons, List.sum_cons, List.headD_cons] at hhead ⊢
    have : 0 ≤ sumT (g1 :: gs).dropLast (fun g => atR g i) :=
      sumT_nonneg _ _ (fun g hg' => hnn g (List.mem_cons_of_mem _ (List.mem_of_mem_dropLast hg')) i hi)
    simp only [sumT] at this
    linarith

/-- **Hypothesis-free form** of the inference clauses for the models the property speaks about
    (probability weights, positive emission densities): the reported likelihood is the sum over all
    `K^T` paths, every `γ_t` is a distribution, `γ` and `ξ` are the exact posteriors. -/
theorem inference_exact_of_posModel (K : Nat) (pi : Nat → Rat) (A : Nat → Nat → Rat) (B : List Vec) (r : FB)
    (h : forwardBackward K pi A B = some r) (hp : posModel K pi A B = true) :
    r.likelihood = likelihoodSpec K pi A B ∧ 0 < r.likelihood ∧
    (∀ g ∈ r.gammas, sumK K (atR g) = 1 ∧ ∀ i, i < K → 0 ≤ atR g i) ∧
    (∀ t i, t < B.length → i < K →
      atR (r.gammas.getD t []) i * r.likelihood = pinnedSpec K pi A B t i) ∧
    (∀ t i j, t + 1 < B.length → i < K → j < K →
      atR (((r.xis.getD t []).getD i [])) j * r.likelihood = pinned2Spec K pi A B t i j) := by
  have hpos := scaling_positive K pi A B r h hp
  have hc : ∀ s ∈ r.steps, s.c ≠ 0 := fun s hs => ne_of_gt (hpos s hs)
  refine ⟨likelihood_exact K pi A B r h hc, prodL_pos _ (fun x hx => by
      obtain ⟨s, hs, rfl⟩ := List.mem_map.mp hx; exact hpos s hs), ?_,
    fun t i ht hi => gamma_exact K pi A B r h hc t ht i hi,
    fun t i j ht hi hj => xi_exact K pi A B r h hc t ht i j hi hj⟩
  intro g hg
  exact ⟨(gamma_normalised K pi A B r h hc).2 g hg, (posteriors_nonneg K pi A B r h hp).1 g hg⟩

/-- **Hypothesis-free form** of the normalisation clause of a Baum–Welch step: for a trace of at
    least two samples and a model in which every initial state is possible, `π'` and **every** row of
    `A'` sum to one (no occupancy side condition). -/
theorem update_normalised_of_posModel (K : Nat) (pi : Nat → Rat) (A : Nat → Nat → Rat) (B : List Vec)
    (r : FB) (h : forwardBackward K pi A B = some r) (hp : posModel K pi A B = true)
    (hT : 2 ≤ B.length) (hpi : ∀ i, i < K → 0 < pi i) :
    sumK K (atR (updPi r.gammas)) = 1 ∧
    ∀ i, i < K → sumK K (atR ((updA K r.gammas r.xis).getD i [])) = 1 := by
  have hc : ∀ s ∈ r.steps, s.c ≠ 0 := fun s hs => ne_of_gt (scaling_positive K pi A B r h hp s hs)
  obtain ⟨h1, h2⟩ := update_normalised K pi A B r h hc
  exact ⟨h1, fun i hi => h2 i hi (ne_of_gt (occupancy_positive K pi A B r h hp hT i hi (hpi i hi)))⟩

/-- Non-vacuity of `posModel` (a model with zero entries in `π` and `A`), and the conclusions on it. -/
example :
    posModel 2 (atR [1, 0]) (fnOfRows [[9/10, 1/10], [0, 1]]) [[1/2, 1/3], [1/5, 1/7], [1/3, 1/2]] = true ∧
    ∃ r, forwardBackward 2 (atR [1, 0]) (fnOfRows [[9/10, 1/10], [0, 1]])
        [[1/2, 1/3], [1/5, 1/7], [1/3, 1/2]] = some r ∧ (∀ s ∈ r.steps, 0 < s.c) ∧
      0 < occupancy r.gammas 0 := by
  refine ⟨by decide +kernel, _, rfl, ?_, ?_⟩ <;> decide +kernel

/-- The hypotheses are needed (kernel-checked witnesses).
    (1) An observation that is impossible under the model (`B_0 = 0` where `π > 0`): `c_0 = 0`, and
        `γ_0` sums to 0, not 1 (the code returns NaN).
    (2) A trace of ONE sample: the occupancy before the last time point is an empty sum, every row
        of `A'` is `0/0` (the model's total division gives 0, the code NaN) — not normalised.
    (3) A state that is impossible initially and unreachable (`π_1 = 0`, `A_{01} = 0`): its
        occupancy is 0 and row 1 of `A'` is `0/0` although every `c_t > 0`. -/
theorem hypotheses_needed :
    (∃ r, forwardBackward 2 (atR [1, 0]) (fnOfRows [[1/2, 1/2], [1/2, 1/2]]) [[0, 1], [1, 1]] = some r ∧
      (∃ s ∈ r.steps, s.c = 0) ∧ ∃ g ∈ r.gammas, sumK 2 (atR g) ≠ 1) ∧
    (∃ r, forwardBackward 2 (atR [1/2, 1/2]) (fnOfRows [[1/2, 1/2], [1/2, 1/2]]) [[1/3, 1/5]] = some r ∧
      posModel 2 (atR [1/2, 1/2]) (fnOfRows [[1/2, 1/2], [1/2, 1/2]]) [[1/3, 1/5]] = true ∧
      sumK 2 (atR ((updA 2 r.gammas r.xis).getD 0 [])) ≠ 1) ∧
    (∃ r, forwardBackward 2 (atR [1, 0]) (fnOfRows [[1, 0], [1/2, 1/2]]) [[1/3, 1/5], [1/2, 1/7]] = some r ∧
      posModel 2 (atR [1, 0]) (fnOfRows [[1, 0], [1/2, 1/2]]) [[1/3, 1/5], [1/2, 1/7]] = true ∧
      occupancy r.gammas 1 = 0 ∧ sumK 2 (atR ((updA 2 r.gammas r.xis).getD 1 [])) ≠ 1) := by
  refine ⟨⟨_, rfl, ?_, ?_⟩, ⟨_, rfl, ?_, ?_⟩, ⟨_, rfl, ?_, ?_, ?_⟩⟩ <;> decide +kernel

/-! ## Baum–Welch does not decrease the likelihood (deepening round D) -/

/-- **`em_monotone`.**  Likelihood, posteriors and re-estimation over ℝ, every sum over ALL `K^T`
    state paths (`EM.LR`, `EM.G = L·γ`, `EM.X = L·ξ`, defined position by position in
    `Lemmas/C16EM`): for a Gaussian-emission model with probability weights `π`, `A` (zero entries
    allowed; totals at most one — exact normalisation is what `update_normalised` gives), variances
    `v > 0`, on any observations `x` and any trace length `T ≥ 1`, the model re-estimated by the
    formulas of `ClassicHmm.update` from the exact posteriors — `π' = γ_0`, `A' = Σ_t ξ_t / Σ_{t<T-1} γ_t`,
    `μ' = Σγx/Σγ`, `σ'² = Σγ(x-μ')²/Σγ` — has a likelihood that is **not smaller**.  Hypothesis: no
    re-estimated variance of an occupied state is zero (variance collapse: the code returns an
    infinite precision there and the likelihood is unbounded). -/
theorem em_monotone (K T : ℕ) (π : ℕ → ℝ) (A : ℕ → ℕ → ℝ) (x μ v : ℕ → ℝ) (hT : 0 < T)
    (hπ : ∀ i, i < K → 0 ≤ π i) (hA : ∀ i j, i < K → j < K → 0 ≤ A i j)
    (hπ1 : ∑ i ∈ Finset.range K, π i ≤ 1) (hA1 : ∀ i, i < K → ∑ j ∈ Finset.range K, A i j ≤ 1)
    (hv : ∀ j, j < K → 0 < v j)
    (hv' : ∀ j, j < K → 0 < EM.wsum K T π A x μ v j → 0 < EM.newVar K T π A x μ v j) :
    EM.LR K T π A (EM.gaussTab x μ v)
      ≤ EM.LR K T (EM.newPi K T π A (EM.gaussTab x μ v)) (EM.newA K T π A (EM.gaussTab x μ v))
          (EM.gaussTab x (EM.newMu K T π A x μ v) (EM.newVar K T π A x μ v)) :=
  EM.em_monotone_gaussian hT hπ hA hπ1 hA1 hv hv'

/-- `em_monotone` **without the side condition**: for strictly positive `π`, `A` (totals at most
    one) and observations that are not all equal, every re-estimated variance is positive — the
    code establishes the hypothesis — and the likelihood does not decrease. -/
theorem em_monotone_of_pos (K T : ℕ) (π : ℕ → ℝ) (A : ℕ → ℕ → ℝ) (x μ v : ℕ → ℝ) (hT : 0 < T)
    (hπ : ∀ i, i < K → 0 < π i) (hA : ∀ i j, i < K → j < K → 0 < A i j)
    (hπ1 : ∑ i ∈ Finset.range K, π i ≤ 1) (hA1 : ∀ i, i < K → ∑ j ∈ Finset.range K, A i j ≤ 1)
    (hv : ∀ j, j < K → 0 < v j) (t1 t2 : ℕ) (h1 : t1 < T) (h2 : t2 < T) (hx : x t1 ≠ x t2) :
    EM.LR K T π A (EM.gaussTab x μ v)
      ≤ EM.LR K T (EM.newPi K T π A (EM.gaussTab x μ v)) (EM.newA K T π A (EM.gaussTab x μ v))
          (EM.gaussTab x (EM.newMu K T π A x μ v) (EM.newVar K T π A x μ v)) :=
  EM.em_monotone_of_pos hT hπ hA hπ1 hA1 hv h1 h2 hx

/-- Non-vacuity of `em_monotone` / `em_monotone_of_pos`: two states, three observations `0, 1, 2`,
    `π = (1/2, 1/2)`, `A = ((3/4, 1/4), (1/4, 3/4))`, means `(0, 2)`, unit variances — every
    hypothesis holds (the side condition of `em_monotone` by `em_monotone_of_pos`). -/
example :
    let π : ℕ → ℝ := fun _ => 1 / 2
    let A : ℕ → ℕ → ℝ := fun i j => if i = j then 3 / 4 else 1 / 4
    let x : ℕ → ℝ := fun t => t
    let μ : ℕ → ℝ := fun j => 2 * j
    let v : ℕ → ℝ := fun _ => 1
    (∀ i, i < 2 → 0 < π i) ∧ (∀ i j, i < 2 → j < 2 → 0 < A i j) ∧
    ∑ i ∈ Finset.range 2, π i ≤ 1 ∧ (∀ i, i < 2 → ∑ j ∈ Finset.range 2, A i j ≤ 1) ∧
    (∀ j, j < 2 → 0 < v j) ∧ x 0 ≠ x 1 ∧
    EM.LR 2 3 π A (EM.gaussTab x μ v)
      ≤ EM.LR 2 3 (EM.newPi 2 3 π A (EM.gaussTab x μ v)) (EM.newA 2 3 π A (EM.gaussTab x μ v))
          (EM.gaussTab x (EM.newMu 2 3 π A x μ v) (EM.newVar 2 3 π A x μ v)) := by
  intro π A x μ v
  have h1 : ∀ i, i < 2 → 0 < π i := fun _ _ => by norm_num [π]
  have h2 : ∀ i j, i < 2 → j < 2 → 0 < A i j := fun i j _ _ => by
    by_cases h : i = j <;> simp [A, h]
  have h3 : ∑ i ∈ Finset.range 2, π i ≤ 1 := by norm_num [π, Finset.sum_range_succ]
  have h4 : ∀ i, i < 2 → ∑ j ∈ Finset.range 2, A i j ≤ 1 := by
    intro i hi
    have : i = 0 ∨ i = 1 := by omega
    rcases this with rfl | rfl <;> norm_num [A, Finset.sum_range_succ]
  have h5 : ∀ j, j < 2 → 0 < v j := fun _ _ => by norm_num [v]
  have h6 : x 0 ≠ x 1 := by norm_num [x]
  exact ⟨h1, h2, h3, h4, h5, h6,
    em_monotone_of_pos 2 3 π A x μ v (by norm_num) h1 h2 h3 h4 h5 0 1 (by norm_num) (by norm_num) h6⟩

/-- The same for ANY positive emission tables `b`, `b'` (not only Gaussian ones) for which the
    expected emission log-density does not go down: the structural part of the ascent. -/
theorem em_monotone_general (K T : ℕ) (π : ℕ → ℝ) (A : ℕ → ℕ → ℝ) (b b' : ℕ → ℕ → ℝ) (hT : 0 < T)
    (w : EM.Weights K T π A b)
    (hπ1 : ∑ i ∈ Finset.range K, π i ≤ 1) (hA1 : ∀ i, i < K → ∑ j ∈ Finset.range K, A i j ≤ 1)
    (hb' : ∀ t j, t < T → j < K → 0 < b' t j)
    (hemit : 0 ≤ ∑ t ∈ Finset.range T, ∑ j ∈ Finset.range K,
      EM.G K T π A b t j * Real.log (b' t j / b t j)) :
    EM.LR K T π A b ≤ EM.LR K T (EM.newPi K T π A b) (EM.newA K T π A b) b' :=
  EM.em_general hT w hπ1 hA1 b' hb' hemit

/-- **The tie of `em_monotone` to the executable model.**  For the rational model (the one the
    harness runs against `forward_backward` / `calculate_temporary_variables` / `ClassicHmm.update`)
    on a model with probability weights and positive emission densities: the real-valued
    likelihood and posteriors of `em_monotone` are the casts of what the scaled recursions compute
    (`L = ∏ c_t`, `γ`, `ξ`). -/
theorem em_link (K : Nat) (pi : Nat → Rat) (A : Nat → Nat → Rat) (B : List Vec) (r : FB)
    (h : forwardBackward K pi A B = some r) (hp : posModel K pi A B = true) :
    EM.LR K B.length (EM.cpi pi) (EM.cA A) (EM.tabR B) = ((r.likelihood : ℚ) : ℝ) ∧
    (∀ t i, t < B.length → i < K →
      EM.G K B.length (EM.cpi pi) (EM.cA A) (EM.tabR B) t i
        = ((atR (r.gammas.getD t []) i : ℚ) : ℝ) * ((r.likelihood : ℚ) : ℝ)) ∧
    (∀ t i j, t + 1 < B.length → i < K → j < K →
      EM.X K B.length (EM.cpi pi) (EM.cA A) (EM.tabR B) t i j
        = ((atR ((r.xis.getD t []).getD i []) j : ℚ) : ℝ) * ((r.likelihood : ℚ) : ℝ)) := by
  have hB : B ≠ [] := by rintro rfl; simp [forwardBackward] at h
  obtain ⟨e1, _, _, e4, e5⟩ := inference_exact_of_posModel K pi A B r h hp
  refine ⟨by rw [e1, EM.cast_likelihoodSpec hB], fun t i ht hi => ?_, fun t i j ht hi hj => ?_⟩
  · rw [← EM.cast_pinnedSpec hB ht, ← e4 t i ht hi]; push_cast; ring
  · rw [← EM.cast_pinned2Spec hB ht, ← e5 t i j ht hi hj]; push_cast; ring

/-- … and the re-estimated parameters of `em_monotone` (`π'`, `A'`, `μ'`, `σ'²` over ℝ from the
    path sums) are the casts of what the executable model's `updPi`, `updA`, `updMean`, `updVar`
    return (the functions compared with `ClassicHmm.update` on every run). -/
theorem em_link_update (K : Nat) (pi : Nat → Rat) (A : Nat → Nat → Rat) (B : List Vec) (r : FB)
    (data : List Rat) (h : forwardBackward K pi A B = some r) (hp : posModel K pi A B = true)
    (hd : data.length = B.length) :
    (∀ i, i < K → EM.newPi K B.length (EM.cpi pi) (EM.cA A) (EM.tabR B) i
      = ((atR (updPi r.gammas) i : ℚ) : ℝ)) ∧
    (∀ i j, i < K → j < K → EM.newA K B.length (EM.cpi pi) (EM.cA A) (EM.tabR B) i j
      = ((fnOfRows (updA K r.gammas r.xis) i j : ℚ) : ℝ)) ∧
    (∀ j, j < K →
      EM.newMuB K B.length (EM.cpi pi) (EM.cA A) (EM.tabR B) (fun t => ((data.getD t 0 : ℚ) : ℝ)) j
        = ((atR (updMean K r.gammas data) j : ℚ) : ℝ)) ∧
    (∀ j, j < K →
      EM.newVarB K B.length (EM.cpi pi) (EM.cA A) (EM.tabR B) (fun t => ((data.getD t 0 : ℚ) : ℝ)) j
        = ((atR (updVar K r.gammas data) j : ℚ) : ℝ)) := by
  have hB : B ≠ [] := by rintro rfl; simp [forwardBackward] at h
  have hT : 0 < B.length := List.length_pos_of_ne_nil hB
  obtain ⟨l1, l2, l3⟩ := em_link K pi A B r h hp
  have hL0 := (inference_exact_of_posModel K pi A B r h hp).2.1
  have hLne : ((r.likelihood : ℚ) : ℝ) ≠ 0 := by exact_mod_cast ne_of_gt hL0
  have hgl := (gamma_normalised K pi A B r h
    (fun s hs => ne_of_gt (scaling_positive K pi A B r h hp s hs))).1
  have hxl : r.xis.length = B.length - 1 := by
    have := congrArg List.length (xi_marginal K pi A B r h)
    simpa [hgl] using this
  refine ⟨fun i hi => EM.pi_link r.gammas r.likelihood hLne l1 (l2 0 i hT hi),
    fun i j hi hj => EM.A_link r.gammas r.xis r.likelihood hLne hxl hgl hi hj
      (fun t ht => l2 t i ht hi) (fun t ht => l3 t i j ht hi hj),
    fun j hj => (EM.mean_link r.gammas data r.likelihood hLne hgl hd hj (fun t ht => l2 t j ht hj)).symm,
    fun j hj => (EM.var_link r.gammas data r.likelihood hLne hgl hd hj (fun t ht => l2 t j ht hj)).symm⟩

/-- **Ascent for the executable model, emission table kept**: for every model with probability
    weights (totals at most one) and positive emission densities — any table `B`, Gaussian or not —
    replacing `π`, `A` by what `ClassicHmm.update` computes from the forward–backward run
    (`updPi`, `updA`) does not decrease the exact likelihood `Σ_paths P(path, y)`. -/
theorem em_monotone_tables (K : Nat) (pi : Nat → Rat) (A : Nat → Nat → Rat) (B : List Vec) (r : FB)
    (h : forwardBackward K pi A B = some r) (hp : posModel K pi A B = true)
    (hπ1 : sumK K pi ≤ 1) (hA1 : ∀ i, i < K → sumK K (A i) ≤ 1) :
    likelihoodSpec K pi A B
      ≤ likelihoodSpec K (atR (updPi r.gammas)) (fnOfRows (updA K r.gammas r.xis)) B := by
  have hB : B ≠ [] := by rintro rfl; simp [forwardBackward] at h
  obtain ⟨e1, e2, _, e4, e5⟩ := inference_exact_of_posModel K pi A B r h hp
  have hgl := (gamma_normalised K pi A B r h
    (fun s hs => ne_of_gt (scaling_positive K pi A B r h hp s hs))).1
  have hxl : r.xis.length = B.length - 1 := by
    have := congrArg List.length (xi_marginal K pi A B r h)
    simpa [hgl] using this
  exact EM.em_tables_of_exact K pi A B r.gammas r.xis r.likelihood hB hp hπ1 hA1 e1 e2 hxl hgl
    (fun t i ht hi => e4 t i ht hi) (fun t i j ht hi hj => e5 t i j ht hi hj)

/-- The same about the function the driver runs (`c16.emtab`). -/
theorem emTables_mono (K : Nat) (pi : Nat → Rat) (A : Nat → Nat → Rat) (B : List Vec) (l0 l1 : Rat)
    (h : emTables K pi A B = some (l0, l1)) (hp : posModel K pi A B = true)
    (hs : subStochastic K pi A = true) : l0 ≤ l1 := by
  unfold emTables at h
  cases hr : forwardBackward K pi A B with
  | none => rw [hr] at h; simp at h
  | some r =>
    rw [hr] at h
    simp only [Option.map_some, Option.some.injEq, Prod.mk.injEq] at h
    simp only [subStochastic, Bool.and_eq_true, List.all_eq_true, List.mem_range, decide_eq_true_eq] at hs
    rw [← h.1, ← h.2]
    exact em_monotone_tables K pi A B r hr hp hs.1 hs.2

/-- Non-vacuity of `em_monotone_tables` (the model of the examples above, with a zero in `π` and
    in `A`): the exact likelihood strictly increases. -/
example :
    posModel 2 (atR [1, 0]) (fnOfRows [[9/10, 1/10], [0, 1]]) [[1/2, 1/3], [1/5, 1/7], [1/3, 1/2]] = true ∧
    sumK 2 (atR [1, 0]) ≤ 1 ∧ (∀ i, i < 2 → sumK 2 (fnOfRows [[9/10, 1/10], [0, 1]] i) ≤ 1) ∧
    ∃ r, forwardBackward 2 (atR [1, 0]) (fnOfRows [[9/10, 1/10], [0, 1]])
        [[1/2, 1/3], [1/5, 1/7], [1/3, 1/2]] = some r ∧
      likelihoodSpec 2 (atR [1, 0]) (fnOfRows [[9/10, 1/10], [0, 1]]) [[1/2, 1/3], [1/5, 1/7], [1/3, 1/2]]
        < likelihoodSpec 2 (atR (updPi r.gammas)) (fnOfRows (updA 2 r.gammas r.xis))
            [[1/2, 1/3], [1/5, 1/7], [1/3, 1/2]] := by
  refine ⟨by decide +kernel, by decide +kernel, by decide +kernel, _, rfl, by decide +kernel⟩


/-- Non-vacuity: a two-state model on three observations; every `c_t ≠ 0`, and the likelihood is the
    36000-th part of 1031 on both sides. -/
example :
    ∃ r, forwardBackward 2 (atR [1/2, 1/2]) (fnOfRows [[9/10, 1/10], [2/10, 8/10]])
        [[1/2, 1/3], [1/5, 1/7], [1/3, 1/2]] = some r ∧ (∀ s ∈ r.steps, s.c ≠ 0) ∧
      r.likelihood = 1031 / 36000 ∧
      (∀ i, i < 2 → sumT r.gammas.dropLast (fun g => atR g i) ≠ 0) ∧
      atR (r.gammas.getD 1 []) 0 * r.likelihood = 217 / 12000 ∧
      pinnedSpec 2 (atR [1/2, 1/2]) (fnOfRows [[9/10, 1/10], [2/10, 8/10]])
        [[1/2, 1/3], [1/5, 1/7], [1/3, 1/2]] 1 0 = 217 / 12000 := by
  refine ⟨_, rfl, ?_, ?_, ?_, ?_, ?_⟩ <;> decide +kernel

/-! ## Baum–Welch of the ALGORITHM over ℝ (deepening round D)

  `Gen.*` (file `Lemmas/C16F`, generated) is the forward–backward model of `Model/C16` with `Rat`
  replaced by an arbitrary field, `GenR.bwStep` one iteration of `baum_welch`: the Gaussian
  emission table `B[t][j] = N(x_t; μ_j, σ_j²)`, the scaled `forward_backward` +
  `calculate_temporary_variables`, then `ClassicHmm.update`; `GenR.bwLik` the likelihood the code
  reports, `∏ c_t`. -/

/-- **The generic algorithm at `F = ℚ` is the executable model** that the driver runs and the
    harness compares with the code on every run: same scaling factors, `γ`, `ξ`, likelihood and
    re-estimated parameters (definitional unfolding, structure by structure). -/
theorem generic_model_is_executable_model (K : ℕ) (pi : ℕ → ℚ) (A : ℕ → ℕ → ℚ) (B : List Vec)
    (gammas : List Vec) (xis : List (List Vec)) (data : List ℚ) (r : FB) :
    Gen.forwardBackward K pi A B
      = (forwardBackward K pi A B).map (fun r => ⟨r.steps.map GenQ.toStep, r.gammas, r.xis⟩) ∧
    Gen.FB.likelihood (⟨r.steps.map GenQ.toStep, r.gammas, r.xis⟩ : Gen.FB ℚ) = r.likelihood ∧
    Gen.updPi gammas = updPi gammas ∧ Gen.updA K gammas xis = updA K gammas xis ∧
    Gen.updMean K gammas data = updMean K gammas data ∧ Gen.updVar K gammas data = updVar K gammas data :=
  ⟨GenQ.forwardBackward_eq K pi A B, GenQ.likelihood_eq r, GenQ.update_eq K gammas xis data⟩

/-- **One Baum–Welch iteration does not decrease the likelihood and keeps `π` and every row of `A`
    normalised** — for the algorithm as coded, in exact real arithmetic: for every number of states,
    every trace of at least two samples that are not all equal, and every model with strictly
    positive `π`, `A` (totals at most one) and positive variances, the model after `bwStep` again
    satisfies these conditions (with totals exactly one), and `∏ c_t` of the new model is at least
    `∏ c_t` of the old one (which is positive, so `Σ log c_t` does not decrease either). -/
theorem baum_welch_step_monotone (K : ℕ) (hK : 0 < K) (x : List ℝ) (hT : 2 ≤ x.length) (t1 t2 : ℕ)
    (h1 : t1 < x.length) (h2 : t2 < x.length) (hx : x.getD t1 0 ≠ x.getD t2 0)
    (p : GenR.Params) (hp : GenR.Inv K p) :
    GenR.Inv K (GenR.bwStep K x p) ∧ GenR.bwLik K x p ≤ GenR.bwLik K x (GenR.bwStep K x p) ∧
    0 < GenR.bwLik K x p ∧ ∑ i ∈ Finset.range K, (GenR.bwStep K x p).π i = 1 ∧
    ∀ i, i < K → ∑ j ∈ Finset.range K, (GenR.bwStep K x p).A i j = 1 :=
  GenR.bw_step hK x hT h1 h2 hx p hp

/-- **The same with zero probabilities allowed** (`π, A ≥ 0` with positive totals at most one): unless
    the step runs into one of the two documented degenerate outcomes — a row of `A'` that is `0/0`
    (state never occupied before the last sample; the row total of the model's total division is
    then 0) or a re-estimated variance that is not positive — the likelihood the algorithm reports
    does not decrease and `π'` sums to one.  Any trace length `T ≥ 1`. -/
theorem baum_welch_step_monotone_zeros (K : ℕ) (x : List ℝ) (hT : 1 ≤ x.length) (p : GenR.Params)
    (hp : GenR.Inv0 K p)
    (hrow' : ∀ i, i < K → 0 < ∑ j ∈ Finset.range K, (GenR.bwStep K x p).A i j)
    (hvar' : ∀ j, j < K → 0 < (GenR.bwStep K x p).v j) :
    GenR.bwLik K x p ≤ GenR.bwLik K x (GenR.bwStep K x p) ∧ 0 < GenR.bwLik K x p ∧
    ∑ i ∈ Finset.range K, (GenR.bwStep K x p).π i = 1 :=
  GenR.bw_step0 x hT p hp hrow' hvar'

/-- Non-vacuity of the two side conditions: every strictly positive model on a trace of ≥ 2 samples
    that are not all equal meets them (by `baum_welch_step_monotone`); for a model WITH zero entries
    see the kernel-evaluated instance next to `em_monotone_tables`. -/
example (K : ℕ) (hK : 0 < K) (x : List ℝ) (hT : 2 ≤ x.length) (t1 t2 : ℕ)
    (h1 : t1 < x.length) (h2 : t2 < x.length) (hx : x.getD t1 0 ≠ x.getD t2 0)
    (p : GenR.Params) (hp : GenR.Inv K p) :
    (∀ i, i < K → 0 < ∑ j ∈ Finset.range K, (GenR.bwStep K x p).A i j) ∧
    (∀ j, j < K → 0 < (GenR.bwStep K x p).v j) := by
  obtain ⟨hi, _, _, _, hrow⟩ := baum_welch_step_monotone K hK x hT t1 t2 h1 h2 hx p hp
  exact ⟨fun i h => by rw [hrow i h]; exact zero_lt_one, hi.v_pos⟩

/-- … hence along ALL iterations: the sequence of reported likelihoods is monotone. -/
theorem baum_welch_monotone (K : ℕ) (hK : 0 < K) (x : List ℝ) (hT : 2 ≤ x.length) (t1 t2 : ℕ)
    (h1 : t1 < x.length) (h2 : t2 < x.length) (hx : x.getD t1 0 ≠ x.getD t2 0)
    (p : GenR.Params) (hp : GenR.Inv K p) :
    Monotone (fun n => GenR.bwLik K x ((GenR.bwStep K x)^[n] p)) ∧
    ∀ n, GenR.Inv K ((GenR.bwStep K x)^[n] p) :=
  ⟨GenR.bw_monotone_le hK x hT h1 h2 hx p hp, fun n => (GenR.bw_monotone hK x hT h1 h2 hx p hp n).1⟩

/-- Non-vacuity: two states, the trace `0, 1, 2`, `π = (1/2, 1/2)`, `A = ((3/4, 1/4), (1/4, 3/4))`,
    means `(0, 2)`, unit variances meet every hypothesis. -/
example : ∃ p : GenR.Params, GenR.Inv 2 p ∧ (2 ≤ ([0, 1, 2] : List ℝ).length) ∧
    ([0, 1, 2] : List ℝ).getD 0 0 ≠ ([0, 1, 2] : List ℝ).getD 1 0 := by
  refine ⟨⟨fun _ => 1 / 2, fun i j => if i = j then 3 / 4 else 1 / 4, fun j => 2 * j, fun _ => 1⟩,
    ⟨fun _ _ => by norm_num, fun i j _ _ => by by_cases h : i = j <;> simp [h], ?_, ?_,
      fun _ _ => by norm_num⟩, by simp, by simp⟩
  · norm_num [Finset.sum_range_succ]
  · intro i hi
    have : i = 0 ∨ i = 1 := by omega
    rcases this with rfl | rfl <;> norm_num [Finset.sum_range_succ]

end Verif.C16
