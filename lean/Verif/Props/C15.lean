/-
  C15 — property theorems (statements + short proofs; helper lemmas and the independent
  specifications `specPdfCont`, `specPmfDisc`, `keep`, `specRow?` live in Lemmas/C15).
  Every theorem is about the executable model in `Verif.Model.C15`, which the correspondence check
  ties to `lumicks/pylake/population/dwelltime.py` and `kymotracker/kymotrack.py` on every run.
  Formulas are read at `ℝ` (rounding is not modelled).
-/
import Verif.Lemmas.C15D

namespace Verif.C15
open Verif

/-! ## The log-domain algorithm computes the truncated mixture density -/

/-- Continuous model: `exp(logsumexp(components))` — with SciPy's max-shifted `logsumexp`, for any
    number of components, finite or infinite upper limit — is the truncated exponential-mixture
    density `Σ a_i/τ_i e^{−t/τ_i} / Σ a_i (e^{−tmin/τ_i} − e^{−tmax/τ_i})`. -/
theorem pdfCont_eq_spec (comps : List (Comp ℝ)) (hne : comps ≠ []) (hadm : Admissible comps)
    (tmin t : ℝ) (tmax : Option ℝ) (hwin : ∀ m, tmax = some m → tmin < m) :
    pdfCont comps tmin tmax t = specPdfCont comps tmin tmax t :=
  pdf_cont_eq_spec comps hne hadm tmin t tmax fun c hc => specE_lt tmin tmax c.tau (hadm c hc).2 hwin

/-- Discretised model: the same for the probability mass
    `Σ a_i τ_i (1−x_i)² e^{−(t−Δ)/τ_i} / Σ a_i τ_i (1−x_i)(e^{−(tmin−Δ)/τ_i} − e^{−tmax/τ_i})`, `x_i = e^{−Δ/τ_i}`. -/
theorem pmfDisc_eq_spec (comps : List (Comp ℝ)) (hne : comps ≠ []) (hadm : Admissible comps)
    (tmin step t : ℝ) (hs : 0 < step) (tmax : Option ℝ) (hwin : ∀ m, tmax = some m → tmin - step < m) :
    pmfDisc comps tmin tmax step t = specPmfDisc comps tmin tmax step t :=
  pmf_disc_eq_spec comps hne hadm tmin step t hs tmax fun c hc =>
    specE_lt (tmin - step) tmax c.tau (hadm c hc).2 hwin

example : Admissible [⟨0.3, 0.5⟩, ⟨0.7, 4⟩] ∧ ([⟨0.3, 0.5⟩, ⟨0.7, 4⟩] : List (Comp ℝ)) ≠ [] := by
  refine ⟨?_, by simp⟩
  intro c hc
  simp only [List.mem_cons, List.not_mem_nil, or_false] at hc
  rcases hc with rfl | rfl <;> norm_num

/-! ## Normalisation -/

/-- core `continuous_integrates_to_one`: for every admissible parameter set (any number of
    components, positive amplitudes — not even required to sum to one — and positive lifetimes) and
    every window `tmin < tmax`, the density the code evaluates integrates to one over the window. -/
theorem continuous_integrates_to_one (comps : List (Comp ℝ)) (hne : comps ≠ []) (hadm : Admissible comps)
    (tmin tmax : ℝ) (hwin : tmin < tmax) :
    ∫ t in tmin..tmax, pdfCont comps tmin (some tmax) t = 1 := by
  have hw : ∀ m, some tmax = some m → tmin < m := fun m hm => by cases hm; exact hwin
  have hfun : (fun t => pdfCont comps tmin (some tmax) t) = fun t => specPdfCont comps tmin (some tmax) t :=
    funext fun t => pdfCont_eq_spec comps hne hadm tmin t (some tmax) hw
  rw [hfun]
  exact integral_specPdfCont comps tmin tmax
    (specNormCont_pos comps hne hadm tmin (some tmax)
      fun c hc => specE_lt tmin (some tmax) c.tau (hadm c hc).2 hw).ne'

-- non-vacuity: the `Admissible` instance above with the window `0.5 < 10`
example : (0.5 : ℝ) < 10 := by norm_num

/-- core `discrete_sums_to_one`: with `tmax = tmin + KΔ` the probability masses the code assigns to the
    observable dwell times `tmin, tmin+Δ, …, tmin+KΔ` (upper limit INCLUDED) sum to one — for every
    admissible parameter set, every `tmin`, `Δ > 0`, `K`; since the limits are arguments of the
    statement it holds for each observation's own `(tmin, tmax, Δ)`. `pmfSum` is the sum the driver
    evaluates (`c15.pmfsum`). -/
theorem discrete_sums_to_one (comps : List (Comp ℝ)) (hne : comps ≠ []) (hadm : Admissible comps)
    (tmin step : ℝ) (hs : 0 < step) (K : ℕ) :
    pmfSum comps tmin step (some (tmin + (K : ℝ) * step)) ((List.range (K + 1)).map fun (k : ℕ) => (k : ℝ)) = 1 := by
  have hw : ∀ m, some (tmin + (K : ℝ) * step) = some m → tmin - step < m := fun m hm => by
    cases hm
    have : 0 ≤ (K : ℝ) * step := by positivity
    linarith
  unfold pmfSum
  rw [sumL_eq_sum, List.map_map]
  have hfun : ((fun k => pmfDisc comps tmin (some (tmin + (K : ℝ) * step)) step (tmin + k * step)) ∘ fun (k : ℕ) => (k : ℝ))
      = fun (k : ℕ) => specPmfDisc comps tmin (some (tmin + (K : ℝ) * step)) step (tmin + (k : ℝ) * step) :=
    funext fun k => pmfDisc_eq_spec comps hne hadm tmin step _ hs _ hw
  rw [hfun]
  exact sum_specPmfDisc comps hadm tmin step hs K
    (specNormDisc_pos comps hne hadm tmin step hs _
      fun c hc => specE_lt (tmin - step) _ c.tau (hadm c hc).2 hw).ne'

/-- the boundary term the property text worries about: if the upper limit were EXCLUSIVE (masses summed
    over `tmin, …, tmax − Δ` only) the total would be strictly below one, for every admissible
    parameter set — so the normalisation the code uses is the `tmax`-inclusive one and no other. -/
theorem discrete_sum_excluding_tmax_lt_one (comps : List (Comp ℝ)) (hne : comps ≠ []) (hadm : Admissible comps)
    (tmin step : ℝ) (hs : 0 < step) (K : ℕ) :
    pmfSum comps tmin step (some (tmin + (K : ℝ) * step)) ((List.range K).map fun (k : ℕ) => (k : ℝ)) < 1 := by
  have h := discrete_sums_to_one comps hne hadm tmin step hs K
  unfold pmfSum at h ⊢
  rw [sumL_eq_sum] at h ⊢
  rw [List.range_succ, List.map_append, List.map_append, List.sum_append] at h
  simp only [List.map_cons, List.map_nil, List.sum_cons, List.sum_nil, add_zero] at h
  have hpos : 0 < pmfDisc comps tmin (some (tmin + (K : ℝ) * step)) step (tmin + (K : ℝ) * step) := by
    unfold pmfDisc pdf
    exact Real.exp_pos _
  linarith

-- non-vacuity: the `Admissible` instance above with `Δ = 0.25`
example : (0 : ℝ) < 0.25 := by norm_num

/-- `t_max = inf`, continuous model: without an upper limit the density the code evaluates
    (`np.exp(-inf) = 0` in the window probability) integrates to one over `(tmin, ∞)` — improper integral, every
    admissible parameter set. -/
theorem continuous_integrates_to_one_unbounded (comps : List (Comp ℝ)) (hne : comps ≠ []) (hadm : Admissible comps)
    (tmin : ℝ) : ∫ t in Set.Ioi tmin, pdfCont comps tmin none t = 1 := by
  have hfun : (fun t => pdfCont comps tmin none t) = fun t => specPdfCont comps tmin none t :=
    funext fun t => pdfCont_eq_spec comps hne hadm tmin t none fun m hm => by cases hm
  rw [hfun]
  exact integral_Ioi_specPdfCont comps hne hadm tmin

/-- `t_max = inf`, discretised model: the probability masses of the observable dwell times
    `tmin, tmin + Δ, tmin + 2Δ, …` form a series with sum one (geometric series in `x = e^{−Δ/τ}`). -/
theorem discrete_sums_to_one_unbounded (comps : List (Comp ℝ)) (hne : comps ≠ []) (hadm : Admissible comps)
    (tmin step : ℝ) (hs : 0 < step) :
    HasSum (fun k : ℕ => pmfDisc comps tmin none step (tmin + (k : ℝ) * step)) 1 := by
  have hfun : (fun k : ℕ => pmfDisc comps tmin none step (tmin + (k : ℝ) * step))
      = fun k : ℕ => specPmfDisc comps tmin none step (tmin + (k : ℝ) * step) :=
    funext fun k => pmfDisc_eq_spec comps hne hadm tmin step _ hs none fun m hm => by cases hm
  rw [hfun]
  exact hasSum_specPmfDisc comps hne hadm tmin step hs

section pooled
open MeasureTheory Set

/-- per-observation limits included: for data pooled from several observation windows `DwelltimeModel.pdf`
    reports `Σ_classes count/total · 1[tmin ≤ x < tmax] · pdfCont(tmin, tmax) x` — every truncated sub-density
    masked to ITS OWN window (`pooledPdf`, the function the driver evaluates as `c15.pdfpool`/`c15.quadpool`).
    For every admissible parameter set, any counts with non-zero total and any finite windows inside `[lo, hi]`
    this density integrates to one over `[lo, hi]`.  (With the mask taken over the union of the windows instead,
    each sub-density would contribute more than its share.) -/
theorem pooled_density_integrates_to_one (comps : List (Comp ℝ)) (hne : comps ≠ []) (hadm : Admissible comps)
    (classes : List (LimitClass ℝ)) (lo hi : ℝ) (hcls : ∀ c ∈ classes, WindowIn lo hi c)
    (htot : sumL (classes.map (·.count)) ≠ 0) :
    ∫ x in lo..hi, pooledPdf comps classes x (fun _ => x) = 1 := by
  have hfun : (fun x => pooledPdf comps classes x (fun _ => x)) = fun x =>
      (classes.map fun c => c.count / sumL (classes.map (·.count))
          * (Ico c.tmin (c.tmax.getD 0)).indicator (fun t => pdfCont comps c.tmin c.tmax t) x).sum :=
    funext fun x => pooledPdf_eq comps hne classes lo hi hcls x
  rw [hfun]
  set total := sumL (classes.map (·.count)) with htotal
  have hspec : ∀ c ∈ classes, (fun t => pdfCont comps c.tmin c.tmax t) = fun t => specPdfCont comps c.tmin c.tmax t := by
    intro c hc
    obtain ⟨_, m, hmax, _, hlt, _⟩ := hcls c hc
    exact funext fun t => pdfCont_eq_spec comps hne hadm c.tmin t c.tmax fun m' hm' => by
      rw [hmax] at hm'; cases hm'; exact hlt
  rw [integral_list_sum]
  · have hone : ∀ c ∈ classes, (∫ x in lo..hi, c.count / total
          * (Ico c.tmin (c.tmax.getD 0)).indicator (fun t => pdfCont comps c.tmin c.tmax t) x) = c.count / total := by
      intro c hc
      obtain ⟨_, m, hmax, h1, hlt, h3⟩ := hcls c hc
      rw [intervalIntegral.integral_const_mul, hmax]
      show c.count / total * (∫ x in lo..hi, (Ico c.tmin m).indicator (fun t => pdfCont comps c.tmin (some m) t) x) = _
      rw [integral_indicator_Ico _ lo hi c.tmin m h1 hlt.le h3,
        continuous_integrates_to_one comps hne hadm c.tmin m hlt, mul_one]
    rw [List.map_congr_left hone]
    have : (fun c : LimitClass ℝ => c.count / total) = fun c => c.count * total⁻¹ := by
      funext c; rw [div_eq_mul_inv]
    rw [this, sum_map_mul_const, ← sumL_eq_sum]
    exact mul_inv_cancel₀ htot
  · intro c hc
    rw [hspec c hc]
    have hi' := (continuous_specPdfCont comps c.tmin c.tmax).intervalIntegrable (μ := volume) lo hi
    exact (IntervalIntegrable.const_mul ⟨hi'.1.indicator measurableSet_Ico, hi'.2.indicator measurableSet_Ico⟩ _)

-- non-vacuity: two windows inside `[0.5, 20]` with 3 and 5 dwell times
example : (∀ c ∈ ([⟨3, 0.5, some 10, none⟩, ⟨5, 1, some 20, none⟩] : List (LimitClass ℝ)), WindowIn 0.5 20 c)
    ∧ sumL (([⟨3, 0.5, some 10, none⟩, ⟨5, 1, some 20, none⟩] : List (LimitClass ℝ)).map (·.count)) ≠ 0 := by
  refine ⟨?_, ?_⟩
  · intro c hc
    simp only [List.mem_cons, List.not_mem_nil, or_false] at hc
    rcases hc with rfl | rfl
    · exact ⟨rfl, 10, rfl, by norm_num, by norm_num, by norm_num⟩
    · exact ⟨rfl, 20, rfl, by norm_num, by norm_num, by norm_num⟩
  · simp only [List.map_cons, List.map_nil, sumL]; norm_num

end pooled

/-! ## Relabelling -/

/-- core `relabel_invariant`: the negative log-likelihood handed to the optimiser (and hence the reported
    log-likelihood) does not change under ANY permutation of the components — continuous and
    discretised model, per-observation limits, no hypothesis on the parameters. -/
theorem relabel_invariant (c₁ c₂ : List (Comp ℝ)) (h : c₁.Perm c₂) (obs : List (Obs ℝ)) :
    negLogLik c₁ obs = negLogLik c₂ obs := by
  unfold negLogLik
  congr 2
  exact List.map_congr_left fun o _ => logLikObs_perm c₁ c₂ h o

theorem relabel_invariant_logLik (c₁ c₂ : List (Comp ℝ)) (h : c₁.Perm c₂) (obs : List (Obs ℝ)) :
    logLik c₁ obs = logLik c₂ obs := by
  unfold logLik; rw [relabel_invariant c₁ c₂ h obs]

example : ([⟨0.3, 0.5⟩, ⟨0.7, 4⟩] : List (Comp ℝ)).Perm [⟨0.7, 4⟩, ⟨0.3, 0.5⟩] := List.Perm.swap ..

/-! ## Amplitude constraint -/

/-- core `amplitude_constraint_spec` (one free amplitude): when exactly one amplitude is not fixed,
    `_handle_amplitude_constraint` returns the parameter vector with exactly that entry replaced by
    `1 − Σ fixed amplitudes` (everything else untouched), the amplitudes then sum to one, no amplitude
    is left to the optimiser and no constraint is handed to SLSQP. -/
theorem amplitude_constraint_one_free (n : Nat) (params : List Rat) (mask : Option (List Bool))
    (c : Constraint) (h : handleConstraint n params mask = some c)
    (h1 : countTrue n ((fixedOf params mask).map (!·)) = 1) :
    c.numFree = 0
    ∧ c.params = scatter params ((fixedOf params mask).map (!·)) [1 - ampSum n params (fixedOf params mask)]
    ∧ (c.params.take n).sum = 1
    ∧ countTrue n c.fitted = 0
    ∧ c.fitted.drop n = ((fixedOf params mask).map (!·)).drop n := by
  obtain ⟨hl1, hl2, _, hcase⟩ := handleConstraint_cases n params mask c h
  rcases hcase with ⟨_, rfl⟩ | ⟨hne, _⟩
  · have hp : n ≤ params.length := by omega
    have hf : n ≤ (fixedOf params mask).length := by omega
    obtain ⟨a, b, _, d⟩ := fixFree_spec n params (fixedOf params mask)
      (1 - ampSum n params (fixedOf params mask)) hp hf h1
    refine ⟨rfl, ?_, ?_, b, d⟩
    · exact fixFree_eq_scatter n params _ _ hp (by simpa using hf) (by omega)
    · show ((fixFree n params _ _).1.take n).sum = 1
      rw [a]; ring
  · exact absurd h1 hne

example : handleConstraint 2 [1/4, 1/8, 3, 5] (some [true, false, false, true])
    = some ⟨[false, false, true, false], 0, 1, [1/4, 3/4, 3, 5]⟩ := by decide +kernel

/-- core `amplitude_constraint_spec` (several free amplitudes): the parameters are returned unchanged and
    the equality constraint handed to SLSQP vanishes at `x` EXACTLY when the amplitudes of the
    parameter vector the cost function evaluates (`current_params[fitted_mask] = x`) sum to one. -/
theorem amplitude_constraint_simplex (n : Nat) (params : List Rat) (mask : Option (List Bool))
    (c : Constraint) (h : handleConstraint n params mask = some c)
    (h2 : 2 ≤ countTrue n ((fixedOf params mask).map (!·))) (x : List Rat) (hx : c.numFree ≤ x.length) :
    c.params = params ∧ c.fitted = (fixedOf params mask).map (!·)
    ∧ c.numFree = countTrue n c.fitted
    ∧ (c.value x = 0 ↔ ((scatter c.params c.fitted x).take n).sum = 1) := by
  obtain ⟨hl1, hl2, _, hcase⟩ := handleConstraint_cases n params mask c h
  rcases hcase with ⟨h1, _⟩ | ⟨_, rfl⟩
  · omega
  · refine ⟨rfl, rfl, rfl, ?_⟩
    have hs := sum_take_scatter n params (fixedOf params mask) x (by omega) (by omega) hx
    simp only [Constraint.value] at hs ⊢
    rw [hs]
    constructor <;> intro h' <;> linarith

example : handleConstraint 2 [1/2, 1/2, 3, 5] none
    = some ⟨[true, true, true, true], 2, 0, [1/2, 1/2, 3, 5]⟩ := by decide +kernel

/-- error branches of `_handle_amplitude_constraint`: it raises `ValueError` EXACTLY when the mask does not match the
    parameter vector (or that vector does not have `2n` entries), the fixed amplitudes sum to more than one, or no
    amplitude is free and the fixed ones miss one by more than `np.allclose`'s `1e-6 + 1e-5`.  In particular a single
    free amplitude is never refused (it is determined so that the sum is one). -/
theorem amplitude_constraint_refuses_iff (n : Nat) (params : List Rat) (mask : Option (List Bool)) :
    handleConstraint n params mask = none ↔
      ((fixedOf params mask).length ≠ params.length ∨ params.length ≠ 2 * n
        ∨ 1 < ampSum n params (fixedOf params mask)
        ∨ (countTrue n ((fixedOf params mask).map (!·)) = 0
            ∧ (11 : Rat) / 1000000 < |ampSum n params (fixedOf params mask) - 1|)) :=
  handleConstraint_none_iff n params mask

example : handleConstraint 2 [1/2, 1/4, 3, 5] (some [true, true, false, false]) = none
    ∧ handleConstraint 2 [3/4, 1/2, 3, 5] (some [true, true, false, false]) = none
    ∧ handleConstraint 2 [1/2, 1/4, 3, 5] (some [true, false, false]) = none := by decide +kernel

/-! ## What `_exponential_mle_optimize` hands to the optimiser and reports back -/

/-- `reported_parameters_spec`: whenever `_handle_amplitude_constraint` accepts, for every answer `x` of the optimiser
    with one value per fitted parameter: the reported vector `current_params[fitted_param_mask] = x` has `2n`
    entries, holds `x` in the fitted slots (in order), leaves every parameter that is not fitted at the value the
    constraint handling gave it, and the start vector handed over (`current_params[fitted_param_mask]`) put back
    reproduces the initial guess. -/
theorem reported_parameters_spec (n : Nat) (params : List Rat) (mask : Option (List Bool)) (c : Constraint)
    (h : handleConstraint n params mask = some c) (x : List Rat) (hx : x.length = c.fitted.count true) :
    (scatter c.params c.fitted x).length = 2 * n
    ∧ gather (scatter c.params c.fitted x) c.fitted = x
    ∧ (∀ i, c.fitted.getD i false = false → (scatter c.params c.fitted x)[i]? = c.params[i]?)
    ∧ scatter c.params c.fitted (gather c.params c.fitted) = c.params := by
  have hlen : c.fitted.length = c.params.length ∧ c.params.length = 2 * n := by
    obtain ⟨hl1, hl2, _, hcase⟩ := handleConstraint_cases n params mask c h
    rcases hcase with ⟨h1, rfl⟩ | ⟨_, rfl⟩
    · obtain ⟨l1, l2⟩ := fixFree_length n params ((fixedOf params mask).map (!·))
        (1 - ampSum n params (fixedOf params mask))
      simp only [l1, l2, List.length_map, hl1, hl2, and_self]
    · simp only [List.length_map, hl1, hl2, and_self]
  exact ⟨by rw [scatter_length, hlen.2], gather_scatter _ _ _ hlen.1 hx,
    fun i hi => scatter_fixed _ _ _ i hi, scatter_gather _ _⟩

/-- derive → query: with exactly one free amplitude the amplitudes of the reported vector sum to one WHATEVER the
    optimiser answers (none of them is among the fitted parameters) -/
theorem one_free_amplitude_reported_on_simplex (n : Nat) (params : List Rat) (mask : Option (List Bool))
    (c : Constraint) (h : handleConstraint n params mask = some c)
    (h1 : countTrue n ((fixedOf params mask).map (!·)) = 1) (x : List Rat) :
    ((scatter c.params c.fitted x).take n).sum = 1 := by
  obtain ⟨_, _, hsum, hfit, _⟩ := amplitude_constraint_one_free n params mask c h h1
  rw [take_scatter_of_countTrue_zero n c.params c.fitted x hfit, hsum]

example : handleConstraint 2 [1/4, 1/8, 3, 5] (some [true, false, false, true])
      = some ⟨[false, false, true, false], 0, 1, [1/4, 3/4, 3, 5]⟩
    ∧ scatter [1/4, 3/4, 3, 5] [false, false, true, false] [(7 : Rat)] = [1/4, 3/4, 7, 5]
    ∧ gather [(1/4 : Rat), 3/4, 3, 5] [false, false, true, false] = [3] := by decide +kernel

/-- option `initial_guess=None` (every public `DwelltimeModel` fit): the default guess has `2n` entries, its
    amplitudes sum to one (the search starts on the simplex) and its lifetimes average to the sample mean -/
theorem default_guess_spec (n : Nat) (hn : 1 ≤ n) (m : Rat) :
    (defaultGuess n m).length = 2 * n
    ∧ ((defaultGuess n m).take n).sum = 1
    ∧ ((defaultGuess n m).drop n).sum / (n : Rat) = m :=
  defaultGuess_spec' n hn m

/-- derive → derive: `_handle_amplitude_constraint` never refuses the default guess when no parameter is fixed -/
theorem default_guess_accepted (n : Nat) (hn : 1 ≤ n) (m : Rat) :
    (handleConstraint n (defaultGuess n m) none).isSome = true :=
  default_guess_accepted' n hn m

example : defaultGuess 3 2 = [1/3, 1/3, 1/3, 1, 2, 3] := by decide +kernel

/-! ## One component, no upper limit -/

/-- core `one_component_mle`: for a one-component model without upper limit (any amplitude value, per-
    observation minimum observable times) the log-likelihood the code reports is maximised over
    `τ > 0` exactly at `τ̂ = mean (t_i − tmin_i)`, and nowhere else. -/
theorem one_component_mle (a : ℝ) (ps : List (ℝ × ℝ)) (hne : ps ≠ [])
    (hS : 0 < (ps.map fun p => p.1 - p.2).sum) (tau : ℝ) (ht : 0 < tau) :
    logLik [⟨a, tau⟩] (ps.map openObs)
        ≤ logLik [⟨a, mleTau (ps.map openObs) (ps.length : ℝ)⟩] (ps.map openObs)
    ∧ (logLik [⟨a, tau⟩] (ps.map openObs)
        = logLik [⟨a, mleTau (ps.map openObs) (ps.length : ℝ)⟩] (ps.map openObs)
        → tau = mleTau (ps.map openObs) (ps.length : ℝ)) := by
  have hn : 0 < (ps.length : ℝ) := by
    have : 0 < ps.length := List.length_pos_iff.2 hne
    exact_mod_cast this
  rw [logLik_one, logLik_one, mleTau_real]
  exact profile_max _ _ tau hn hS ht

/-- `one_component_mle` under the lifetime search bounds: over any search interval `[lo, hi]` (`0 < lo ≤ hi`) the
    log-likelihood of the one-component model without upper limit is maximal at the closed form CLIPPED to the
    interval, `max lo (min hi τ̂)` — the profile is increasing up to `τ̂` and decreasing from there on.  (This is the
    value the fitted lifetime is held to when `τ̂` falls outside `_exponential_mle_bounds`, e.g. when the sample mean
    is below `1.1·tmin`.) -/
theorem one_component_mle_within_bounds (a : ℝ) (ps : List (ℝ × ℝ)) (hne : ps ≠ [])
    (hS : 0 < (ps.map fun p => p.1 - p.2).sum) (lo hi : ℝ) (hlo : 0 < lo) (hlh : lo ≤ hi)
    (tau : ℝ) (h1 : lo ≤ tau) (h2 : tau ≤ hi) :
    logLik [⟨a, tau⟩] (ps.map openObs)
      ≤ logLik [⟨a, max lo (min hi (mleTau (ps.map openObs) (ps.length : ℝ)))⟩] (ps.map openObs) := by
  have hn : 0 < (ps.length : ℝ) := by
    have : 0 < ps.length := List.length_pos_iff.2 hne
    exact_mod_cast this
  rw [logLik_one, logLik_one, mleTau_real]
  exact profile_max_clamped _ _ lo hi tau hn hS hlo hlh h1 h2

-- non-vacuity: the closed form 1.25 of the data below lies above the interval [0.05, 1]: the maximum is at `hi`
example : (0 : ℝ) < 0.05 ∧ (0.05 : ℝ) ≤ 1 ∧ (0.05 : ℝ) ≤ 0.7 ∧ (0.7 : ℝ) ≤ 1 := by norm_num

/-- with a common minimum observable time the estimate is `sample mean − tmin` (the closed form of the
    property text) -/
theorem mle_scalar_limit (ps : List (ℝ × ℝ)) (hne : ps ≠ []) (tmin : ℝ) (h : ∀ p ∈ ps, p.2 = tmin) :
    mleTau (ps.map openObs) (ps.length : ℝ) = (ps.map (·.1)).sum / (ps.length : ℝ) - tmin := by
  have hn : (ps.length : ℝ) ≠ 0 := by
    have : 0 < ps.length := List.length_pos_iff.2 hne
    positivity
  rw [mleTau_real, sum_map_sub_const ps tmin h]
  field_simp

example : (0 : ℝ) < (([(2, 0.5), (1.5, 0.5)] : List (ℝ × ℝ)).map fun p => p.1 - p.2).sum := by norm_num

/-! ## Dwell-time data handed over by a track group -/

/-- core `extraction_spec`: for tracks over any number of kymographs (tracks of one kymograph agreeing on
    its geometry), whenever the extraction succeeds its rows are — up to the order in which the code
    stacks the kymographs — exactly one row per track with positive duration that, when ambiguous
    dwells are excluded, touches neither the first nor the last scan line; the row holds the track
    duration `(last − first)·line time`, the track's own minimum observable duration, the kymograph's
    total duration `#lines · line time`, and the line time as discretisation step. -/
theorem extraction_spec (excl : Bool) (tracks : List Track) (hc : Consistent tracks)
    (rows : List Row) (rem : Bool) (h : extract excl false tracks = some (rows, rem)) :
    (rows.map some).Perm ((tracks.filter (keep excl)).map specRow?) :=
  extract_rows_perm excl tracks hc rows rem h

example : extract true false
    [⟨0, 10, 1/4, [0, 1, 2], some (1/4)⟩, ⟨1, 8, 1/2, [2, 3, 5], some (1/2)⟩, ⟨0, 10, 1/4, [3, 4], some (1/4)⟩,
     ⟨0, 10, 1/4, [5], some (1/4)⟩, ⟨1, 8, 1/2, [6, 7], some (1/2)⟩]
    = some ([⟨1/4, 1/4, 5/2, 1/4⟩, ⟨3/2, 1/2, 4, 1/2⟩], true) := by decide +kernel

-- the hypothesis `Consistent` of `extraction_spec` is NECESSARY (kernel-checked witness): were two tracks of one
-- kymograph to disagree on its geometry, the rows would carry the geometry of the group's first track
example : ∃ rows rem, extract false false
      [⟨0, 10, 1/4, [1, 2], some (1/4)⟩, ⟨0, 8, 1/2, [1, 3], some (1/2)⟩] = some (rows, rem)
    ∧ ¬ (rows.map some).Perm (([⟨0, 10, 1/4, [1, 2], some (1/4)⟩, ⟨0, 8, 1/2, [1, 3], some (1/2)⟩].filter
          (keep false)).map specRow?) :=
  ⟨[⟨1/4, 1/4, 5/2, 1/4⟩, ⟨1, 1/2, 5/2, 1/4⟩], false, by decide +kernel, by decide +kernel⟩

/-- the extraction refuses (the code raises `RuntimeError`) exactly when some track that would contribute
    a row carries no minimum observable duration -/
theorem extraction_refuses_iff (excl : Bool) (tracks : List Track) :
    extract excl false tracks = none ↔ ∃ t ∈ tracks, keep excl t = true ∧ t.minObs = none :=
  extract_none_iff' excl tracks

/-- the `removed_zeros` flag (which triggers the "Some dwell times are zero" warning) is set exactly when a
    track that is not excluded as ambiguous has no positive duration — in either minimum-time mode -/
theorem extraction_removed_flag (excl om : Bool) (tracks : List Track) (rows : List Row) (rem : Bool)
    (h : extract excl om tracks = some (rows, rem)) : rem = tracks.any (zeroDwell excl) :=
  extract_removed' excl om tracks rows rem h

example : extract false false [⟨0, 10, 1/4, [1, 2], none⟩] = none := by decide +kernel

/-! ### legacy mode `observed_minimum=True` -/

/-- option `observed_minimum=True` (legacy): the rows are — up to the stacking order of the kymographs — one per track
    with positive duration (not touching the first/last line when ambiguous dwells are excluded), holding the track
    duration, `groupMin`: the shortest such dwell of the track's OWN kymograph as minimum observation time, the
    kymograph's total duration and the line time. -/
theorem extraction_spec_observed_minimum (excl : Bool) (tracks : List Track) (hc : Consistent tracks)
    (rows : List Row) (rem : Bool) (h : extract excl true tracks = some (rows, rem)) :
    rows.Perm ((tracks.filter (keep excl)).map (specRowOm excl tracks)) :=
  extract_rows_perm_om excl tracks hc rows rem h

/-- `groupMin` (computed by the model as a running minimum, like `np.min`) is the least dwell time among the kept
    tracks of the same kymograph: attained, and a lower bound — so every dwell handed over lies at or above the
    minimum observation time handed over with it. -/
theorem observed_minimum_is_least (excl : Bool) (tracks : List Track) (t : Track) (ht : t ∈ tracks)
    (hk : keep excl t = true) :
    (∃ u ∈ tracks, u.kymo = t.kymo ∧ keep excl u = true ∧ groupMin excl tracks t.kymo = specDuration u)
    ∧ ∀ u ∈ tracks, u.kymo = t.kymo → keep excl u = true → groupMin excl tracks t.kymo ≤ specDuration u :=
  groupMin_least excl tracks t ht hk

/-- in the legacy mode the stored per-track minimum is never consulted: the extraction cannot refuse -/
theorem extraction_observed_minimum_never_refuses (excl : Bool) (tracks : List Track) :
    extract excl true tracks ≠ none :=
  extract_om_ne_none excl tracks

example : extract true true
    [⟨0, 10, 1/4, [0, 1, 2], none⟩, ⟨1, 8, 1/2, [2, 3, 5], none⟩, ⟨0, 10, 1/4, [3, 4], none⟩,
     ⟨0, 10, 1/4, [5, 8], some (1/4)⟩, ⟨1, 8, 1/2, [1, 2], none⟩]
    = some ([⟨1/4, 1/4, 5/2, 1/4⟩, ⟨3/4, 1/4, 5/2, 1/4⟩, ⟨3/2, 1/2, 4, 1/2⟩, ⟨1/2, 1/2, 4, 1/2⟩], false) := by
  decide +kernel

/-! ### the extraction function handed any list of groups (strengthening round H) -/

/-- a group of the per-kymograph split `_tracks_by_kymo()` lies on a single kymograph: the refusal of mixed groups never
    fires behind `fit_binding_times` -/
theorem extraction_by_kymo_never_mixed (tracks G : List Track) (hG : G ∈ tracksByKymo tracks) : mixed G = false :=
  tracksByKymo_not_mixed tracks G hG

/-- handed the per-kymograph split, `_extract_dwelltime_data_from_groups` is the extraction the theorems above speak
    about (same rows, same flag, same exception) -/
theorem extraction_groups_by_kymo (excl om : Bool) (tracks : List Track) :
    extractGroups excl om (tracksByKymo tracks)
      = match firstError excl om (tracksByKymo tracks) with
        | some e => .error e
        | none => match extract excl om tracks with
          | none => .error "RuntimeError"
          | some r => .ok r :=
  extractGroups_tracksByKymo excl om tracks

/-- a list of groups one of which lies on two or more kymographs is never answered with a table of rows: for such a
    group "the kymograph's total duration" is not defined and the function refuses -/
theorem extraction_refuses_mixed_group (excl om : Bool) (groups : List (List Track))
    (h : ∃ G ∈ groups, mixed G = true) : ∃ e, extractGroups excl om groups = .error e :=
  extractGroups_refuses_mixed excl om groups h

example : mixed [⟨0, 10, 1/4, [1, 2], some (1/4)⟩, ⟨1, 8, 1/2, [1, 3], some (1/2)⟩] = true
    ∧ extractGroups false false [[⟨0, 10, 1/4, [1, 2], some (1/4)⟩], [],
        [⟨0, 10, 1/4, [1, 2], some (1/4)⟩, ⟨1, 8, 1/2, [1, 3], some (1/2)⟩]] = .error "ValueError"
    ∧ extractGroups false true [[⟨0, 10, 1/4, [1, 2], none⟩], [], [⟨1, 8, 1/2, [1, 3], none⟩], [⟨0, 10, 1/4, [2, 5], none⟩]]
      = .ok ([⟨1/4, 1/4, 5/2, 1/4⟩, ⟨1, 1, 4, 1/2⟩, ⟨3/4, 3/4, 5/2, 1/4⟩], false) := by
  decide +kernel

/-! ### `fit_binding_times`: options left out, error branches, what reaches the model -/

/-- options left out (`None`): `fit_binding_times(n, exclude_ambiguous_dwells=…)` behaves exactly like
    `observed_minimum=True, discrete_model=False` — the LEGACY minimum-time mode and the continuous model — except
    for the two warnings it issues. -/
theorem fit_binding_defaults (nComp : Nat) (excl : Bool) (tracks : List Track) :
    fitBindingTimes nComp excl none none tracks
      = (fitBindingTimes nComp excl (some true) (some false) tracks).map
          fun c => { c with warnObservedMin := true, warnDiscrete := true } :=
  fitBindingTimes_defaults nComp excl tracks

/-- derive → query through the public entry point: whenever `fit_binding_times(…, observed_minimum=False, …)` gets as
    far as constructing the model, the group is not empty, `n_components ∈ {1, 2}`, at least one row is handed over,
    the rows are (up to stacking order) exactly one per qualifying track with the track duration, the track's OWN
    minimum observable duration, the kymograph's total duration and the line time, the zero-dwell warning is issued
    exactly when a non-excluded track has zero duration, and the time step reaches the model iff `discrete_model` is
    `True`. -/
theorem fit_binding_rows_spec (nComp : Nat) (excl : Bool) (disc : Option Bool) (tracks : List Track)
    (hc : Consistent tracks) (c : FitCall)
    (h : fitBindingTimes nComp excl (some false) disc tracks = .ok c) :
    tracks ≠ [] ∧ (nComp = 1 ∨ nComp = 2) ∧ c.rows ≠ []
    ∧ (c.rows.map some).Perm ((tracks.filter (keep excl)).map specRow?)
    ∧ c.removedZeros = tracks.any (zeroDwell excl)
    ∧ c.stepHanded = disc.getD false := by
  obtain ⟨h1, h2, h3, hext, _, h6, _, _⟩ := fitBindingTimes_ok nComp excl (some false) disc tracks c h
  simp only [Option.getD_some] at hext
  exact ⟨h1, h2, h3, extraction_spec excl tracks hc c.rows c.removedZeros hext,
    extraction_removed_flag excl false tracks c.rows c.removedZeros hext, h6⟩

/-- … and with `observed_minimum` left out (or `True`) the minimum observation time handed over is the shortest kept
    dwell of the track's kymograph, not the track's own minimum (the documented legacy behaviour). -/
theorem fit_binding_rows_legacy (nComp : Nat) (excl : Bool) (disc : Option Bool) (tracks : List Track)
    (hc : Consistent tracks) (c : FitCall)
    (h : fitBindingTimes nComp excl none disc tracks = .ok c) :
    c.observedMin = true ∧ c.warnObservedMin = true
    ∧ c.rows.Perm ((tracks.filter (keep excl)).map (specRowOm excl tracks)) := by
  obtain ⟨_, _, _, hext, h5, _, h7, _⟩ := fitBindingTimes_ok nComp excl none disc tracks c h
  simp only [Option.getD_none] at hext h5
  exact ⟨h5, h7, extraction_spec_observed_minimum excl tracks hc c.rows c.removedZeros hext⟩

example : fitBindingTimes 1 true none none [⟨0, 10, 1/4, [1, 2, 3], some (1/4)⟩, ⟨0, 10, 1/4, [4, 4], none⟩]
      = .ok ⟨[⟨1/2, 1/2, 5/2, 1/4⟩], true, true, false, true, true⟩
    ∧ fitBindingTimes 3 true none none [⟨0, 10, 1/4, [1, 2, 3], some (1/4)⟩] = .error "ValueError"
    ∧ fitBindingTimes 1 true (some false) (some true) [⟨0, 10, 1/4, [1, 2, 3], some (1/4)⟩]
      = .ok ⟨[⟨1/2, 1/4, 5/2, 1/4⟩], false, false, true, false, false⟩ := by decide +kernel

/-! ## The analytic gradient (ext) -/

/-- ext `gradient_continuous_correct` (amplitudes): for the continuous model, any number of components, any
    position of the component, finite or infinite upper limit: the derivative of the log-likelihood of
    one observation with respect to a component's amplitude (the other parameters fixed, amplitudes
    treated as independent, as SLSQP does) IS the expression the code computes for it — provided the
    code's amplitude clip (`a ≥ 1e-14`) and its `t_max/τ < 1e10` mask are inactive. The Jacobian handed
    to the optimiser is minus the sum of these per-observation terms (by definition of `jacobian`). -/
theorem gradient_continuous_correct_amp (pre post : List (Comp ℝ)) (a0 tau t tmin : ℝ) (tmax : Option ℝ)
    (hadm : Admissible (pre ++ ⟨a0, tau⟩ :: post))
    (hclip : ∀ c ∈ pre ++ ⟨a0, tau⟩ :: post, (1.0e-14 : ℝ) ≤ c.amp)
    (hwin : ∀ m, tmax = some m → tmin < m)
    (hvalid : ∀ c ∈ pre ++ ⟨a0, tau⟩ :: post, ∀ m, tmax = some m → m / c.tau < (1.0e10 : ℝ)) :
    HasDerivAt (fun a => logLikObs (pre ++ ⟨a, tau⟩ :: post) ⟨t, tmin, tmax, none⟩)
      (((gradObsCont (pre ++ ⟨a0, tau⟩ :: post) t tmin tmax).getD pre.length (0, 0)).1) a0 := by
  have hne : ∀ a : ℝ, pre ++ (⟨a, tau⟩ : Comp ℝ) :: post ≠ [] := fun a => by simp
  have h0 := hadm ⟨a0, tau⟩ (by simp)
  rw [gradObsCont_eq_spec _ (hne a0) hadm hclip t tmin tmax hwin hvalid, getD_map_mid]
  have hw : ∀ c ∈ pre ++ ⟨a0, tau⟩ :: post, specE tmax c.tau < Real.exp (-tmin / c.tau) :=
    fun c hc => specE_lt tmin tmax c.tau (hadm c hc).2 hwin
  refine (hasDerivAt_logpdf_amp pre post a0 tau t tmin tmax (specP_pos _ (hne a0) hadm t)
    (specNormCont_pos _ (hne a0) hadm tmin tmax hw)).congr_of_eventuallyEq ?_
  filter_upwards [Ioi_mem_nhds h0.1] with a ha
  exact logLikObs_eq_log_spec _ (hne a) (admissible_replace pre post _ ⟨a, tau⟩ hadm ⟨ha, h0.2⟩)
    tmin t tmax hwin

/-- ext `gradient_continuous_correct` (lifetimes): the same for the derivative with respect to a
    component's lifetime, including the boundary term `t_max·e^{−t_max/τ}` of the normalisation. -/
theorem gradient_continuous_correct_tau (pre post : List (Comp ℝ)) (a tau0 t tmin : ℝ) (tmax : Option ℝ)
    (hadm : Admissible (pre ++ ⟨a, tau0⟩ :: post))
    (hclip : ∀ c ∈ pre ++ ⟨a, tau0⟩ :: post, (1.0e-14 : ℝ) ≤ c.amp)
    (hwin : ∀ m, tmax = some m → tmin < m)
    (hvalid : ∀ c ∈ pre ++ ⟨a, tau0⟩ :: post, ∀ m, tmax = some m → m / c.tau < (1.0e10 : ℝ)) :
    HasDerivAt (fun tau => logLikObs (pre ++ ⟨a, tau⟩ :: post) ⟨t, tmin, tmax, none⟩)
      (((gradObsCont (pre ++ ⟨a, tau0⟩ :: post) t tmin tmax).getD pre.length (0, 0)).2) tau0 := by
  have hne : ∀ tau : ℝ, pre ++ (⟨a, tau⟩ : Comp ℝ) :: post ≠ [] := fun tau => by simp
  have h0 := hadm ⟨a, tau0⟩ (by simp)
  rw [gradObsCont_eq_spec _ (hne tau0) hadm hclip t tmin tmax hwin hvalid, getD_map_mid]
  have hw : ∀ c ∈ pre ++ ⟨a, tau0⟩ :: post, specE tmax c.tau < Real.exp (-tmin / c.tau) :=
    fun c hc => specE_lt tmin tmax c.tau (hadm c hc).2 hwin
  refine (hasDerivAt_logpdf_tau pre post a tau0 t tmin tmax h0.2 (specP_pos _ (hne tau0) hadm t)
    (specNormCont_pos _ (hne tau0) hadm tmin tmax hw)).congr_of_eventuallyEq ?_
  filter_upwards [Ioi_mem_nhds h0.2] with tau htau
  exact logLikObs_eq_log_spec _ (hne tau) (admissible_replace pre post _ ⟨a, tau⟩ hadm ⟨h0.1, htau⟩)
    tmin t tmax hwin

-- non-vacuity: the clip and mask hypotheses hold for the `Admissible` instance above with `tmax = 10`
example : (1.0e-14 : ℝ) ≤ 0.3 ∧ (10 : ℝ) / 0.5 < 1.0e10 := by norm_num

-- the clip hypothesis holds on the whole amplitude interval the optimiser searches, `[1e-9, 1 − 1e-9]`
-- (`_exponential_mle_bounds`): a rare component sitting on the amplitude bound is covered by the two theorems above
example (a : ℝ) (h : (1.0e-9 : ℝ) ≤ a) : (1.0e-14 : ℝ) ≤ a := le_trans (by norm_num) h

/-- ext `gradient_discrete_correct` (amplitudes): for the DISCRETISED model (`Δ > 0`, `tmin − Δ < tmax`, finite or
    infinite upper limit), any number of components, any position of the component: the derivative of the
    log-likelihood of one observation with respect to a component's amplitude is the expression the code computes
    (`dlognorm_damp`, `dlogamp_damp` collapsed through `logsumexp`) — provided the amplitude clip and the
    `t_max/τ < 1e10` mask are inactive. -/
theorem gradient_discrete_correct_amp (pre post : List (Comp ℝ)) (a0 tau t tmin : ℝ) (tmax : Option ℝ) (step : ℝ)
    (hs : 0 < step)
    (hadm : Admissible (pre ++ ⟨a0, tau⟩ :: post))
    (hclip : ∀ c ∈ pre ++ ⟨a0, tau⟩ :: post, (1.0e-14 : ℝ) ≤ c.amp)
    (hwin : ∀ m, tmax = some m → tmin - step < m)
    (hvalid : ∀ c ∈ pre ++ ⟨a0, tau⟩ :: post, ∀ m, tmax = some m → m / c.tau < (1.0e10 : ℝ)) :
    HasDerivAt (fun a => logLikObs (pre ++ ⟨a, tau⟩ :: post) ⟨t, tmin, tmax, some step⟩)
      (((gradObsDisc (pre ++ ⟨a0, tau⟩ :: post) t tmin tmax step).getD pre.length (0, 0)).1) a0 := by
  have hne : ∀ a : ℝ, pre ++ (⟨a, tau⟩ : Comp ℝ) :: post ≠ [] := fun a => by simp
  have h0 := hadm ⟨a0, tau⟩ (by simp)
  rw [gradObsDisc_eq_spec _ (hne a0) hadm hclip t tmin tmax step hs hwin hvalid, getD_map_mid]
  have hw : ∀ c ∈ pre ++ ⟨a0, tau⟩ :: post, specE tmax c.tau < Real.exp (-(tmin - step) / c.tau) :=
    fun c hc => specE_lt (tmin - step) tmax c.tau (hadm c hc).2 hwin
  refine (hasDerivAt_logpmf_amp pre post a0 tau t tmin tmax step (specPd_pos _ (hne a0) hadm step t hs)
    (specNormDisc_pos _ (hne a0) hadm tmin step hs tmax hw)).congr_of_eventuallyEq ?_
  filter_upwards [Ioi_mem_nhds h0.1] with a ha
  exact logLikObs_eq_log_specDisc _ (hne a) (admissible_replace pre post _ ⟨a, tau⟩ hadm ⟨ha, h0.2⟩)
    tmin step t hs tmax hwin

/-- ext `gradient_discrete_correct` (lifetimes): the same for the derivative with respect to a component's lifetime
    — `tau_factor` (the `Δ·e^{−Δ/τ}` term of the discretisation factor and the boundary term
    `t_max·e^{−t_max/τ}` included) and `dlogtauterm_dtau`. -/
theorem gradient_discrete_correct_tau (pre post : List (Comp ℝ)) (a tau0 t tmin : ℝ) (tmax : Option ℝ) (step : ℝ)
    (hs : 0 < step)
    (hadm : Admissible (pre ++ ⟨a, tau0⟩ :: post))
    (hclip : ∀ c ∈ pre ++ ⟨a, tau0⟩ :: post, (1.0e-14 : ℝ) ≤ c.amp)
    (hwin : ∀ m, tmax = some m → tmin - step < m)
    (hvalid : ∀ c ∈ pre ++ ⟨a, tau0⟩ :: post, ∀ m, tmax = some m → m / c.tau < (1.0e10 : ℝ)) :
    HasDerivAt (fun tau => logLikObs (pre ++ ⟨a, tau⟩ :: post) ⟨t, tmin, tmax, some step⟩)
      (((gradObsDisc (pre ++ ⟨a, tau0⟩ :: post) t tmin tmax step).getD pre.length (0, 0)).2) tau0 := by
  have hne : ∀ tau : ℝ, pre ++ (⟨a, tau⟩ : Comp ℝ) :: post ≠ [] := fun tau => by simp
  have h0 := hadm ⟨a, tau0⟩ (by simp)
  rw [gradObsDisc_eq_spec _ (hne tau0) hadm hclip t tmin tmax step hs hwin hvalid, getD_map_mid]
  have hw : ∀ c ∈ pre ++ ⟨a, tau0⟩ :: post, specE tmax c.tau < Real.exp (-(tmin - step) / c.tau) :=
    fun c hc => specE_lt (tmin - step) tmax c.tau (hadm c hc).2 hwin
  refine (hasDerivAt_logpmf_tau pre post a tau0 t tmin tmax step h0.2 (specPd_pos _ (hne tau0) hadm step t hs)
    (specNormDisc_pos _ (hne tau0) hadm tmin step hs tmax hw)).congr_of_eventuallyEq ?_
  filter_upwards [Ioi_mem_nhds h0.2] with tau htau
  exact logLikObs_eq_log_specDisc _ (hne tau) (admissible_replace pre post _ ⟨a, tau⟩ hadm ⟨h0.1, htau⟩)
    tmin step t hs tmax hwin

-- non-vacuity: `Δ = 0.25`, window `0.5 − 0.25 < 10`, the `Admissible` instance above, clip and mask as before
example : (0 : ℝ) < 0.25 ∧ (0.5 : ℝ) - 0.25 < 10 ∧ (1.0e-14 : ℝ) ≤ 0.3 ∧ (10 : ℝ) / 0.5 < 1.0e10 := by norm_num

/-! ### the two hypotheses of the gradient theorems: established by the search bounds, and necessary -/

/-- the code ESTABLISHES the mask hypothesis: for every lifetime inside the search interval of
    `_exponential_mle_bounds` (`τ ≥ max(0.1·min tmin, 1e-8)`) and every upper limit `m ≤ max tmax`, the mask
    `t_max/τ < 1e10` is inactive as soon as the limits span less than nine decades (`max tmax < 1e9 · min tmin`). -/
theorem mask_inactive_within_bounds (minTmin maxTmax tau m : ℝ) (ha : 0 < minTmin)
    (hspan : maxTmax < 1.0e9 * minTmin) (hm : m ≤ maxTmax)
    (htau : (tauBounds minTmin maxTmax).1 ≤ tau) : m / tau < (1.0e10 : ℝ) := by
  have hlo : minTmin * 0.1 ≤ (tauBounds minTmin maxTmax).1 := by
    simp only [tauBounds, RealLike.lt, decide_eq_true_eq]
    split
    · rename_i h; norm_num at h ⊢; linarith
    · norm_num
  have ht : 0 < tau := by nlinarith
  rw [div_lt_iff₀ ht]
  norm_num at hspan hlo ⊢
  nlinarith

example : (0 : ℝ) < 0.5 ∧ (20 : ℝ) < 1.0e9 * 0.5 := by norm_num

/-- the mask hypothesis is NECESSARY for the exactness of the lifetime derivative: when the mask is active the code
    sets the boundary term `t_max·e^{−t_max/τ}` of the normalisation to zero although it is positive (by less than
    `t_max·e^{−1e10}`, which is why the code can afford it) -/
theorem mask_active_drops_boundary_term (m tau : ℝ) (hm : 0 < m) (h : (1.0e10 : ℝ) ≤ m / tau) :
    maxBound (some m) tau = 0 ∧ 0 < specME (some m) tau := by
  constructor
  · simp only [maxBound, RealLike.lt, decide_eq_true_eq]
    rw [if_neg (not_lt.2 h)]
    norm_num
  · simp only [specME]
    exact mul_pos hm (Real.exp_pos _)

/-- the clip hypothesis is NECESSARY as well: below `1e-14` the Jacobian is evaluated at the amplitude `1e-14`, not at the
    amplitude it was asked about (the optimiser never goes there: its amplitude bound is `1e-9`) -/
theorem clip_active_replaces_amplitude (a : ℝ) (h : a < (1.0e-14 : ℝ)) : clipAmp a = (1.0e-14 : ℝ) ∧ clipAmp a ≠ a := by
  have hc : clipAmp a = (1.0e-14 : ℝ) := by
    simp only [clipAmp, RealLike.lt, decide_eq_true_eq]
    rw [if_pos h]
  exact ⟨hc, by rw [hc]; exact (ne_of_lt h).symm⟩

/-! ## The Jacobian handed to the optimiser is the gradient of the negative log-likelihood -/

/-- one observation, either variant: the per-observation amplitude / lifetime term of component `pre.length` is the
    derivative of that observation's log-likelihood (`GradOk`: proper window, mask inactive) -/
theorem gradObs_correct_amp (pre post : List (Comp ℝ)) (a0 tau : ℝ) (o : Obs ℝ)
    (hadm : Admissible (pre ++ ⟨a0, tau⟩ :: post))
    (hclip : ∀ c ∈ pre ++ ⟨a0, tau⟩ :: post, (1.0e-14 : ℝ) ≤ c.amp)
    (hok : GradOk (pre ++ ⟨a0, tau⟩ :: post) o) :
    HasDerivAt (fun a => logLikObs (pre ++ ⟨a, tau⟩ :: post) o)
      (((gradObs (pre ++ ⟨a0, tau⟩ :: post) o).getD pre.length (0, 0)).1) a0 := by
  obtain ⟨t, tmin, tmax, step⟩ := o
  cases step with
  | none => exact gradient_continuous_correct_amp pre post a0 tau t tmin tmax hadm hclip hok.1 hok.2
  | some d => exact gradient_discrete_correct_amp pre post a0 tau t tmin tmax d hok.1 hadm hclip hok.2.1 hok.2.2

theorem gradObs_correct_tau (pre post : List (Comp ℝ)) (a tau0 : ℝ) (o : Obs ℝ)
    (hadm : Admissible (pre ++ ⟨a, tau0⟩ :: post))
    (hclip : ∀ c ∈ pre ++ ⟨a, tau0⟩ :: post, (1.0e-14 : ℝ) ≤ c.amp)
    (hok : GradOk (pre ++ ⟨a, tau0⟩ :: post) o) :
    HasDerivAt (fun tau => logLikObs (pre ++ ⟨a, tau⟩ :: post) o)
      (((gradObs (pre ++ ⟨a, tau0⟩ :: post) o).getD pre.length (0, 0)).2) tau0 := by
  obtain ⟨t, tmin, tmax, step⟩ := o
  cases step with
  | none => exact gradient_continuous_correct_tau pre post a tau0 t tmin tmax hadm hclip hok.1 hok.2
  | some d => exact gradient_discrete_correct_tau pre post a tau0 t tmin tmax d hok.1 hadm hclip hok.2.1 hok.2.2

/-- `jacobian_is_gradient` (amplitude block): for ANY list of observations (continuous and discretised ones, each
    with its own limits), any number of components: entry `i` of the vector
    `_exponential_mixture_log_likelihood_jacobian` returns — the per-observation terms summed over the observations
    (`np.sum(unsummed_gradient, axis=1)`), negated, amplitudes first — is the derivative of the NEGATIVE
    log-likelihood `_exponential_mixture_log_likelihood` with respect to the amplitude of component `i`
    (the other parameters fixed): the gradient handed to SLSQP is the gradient of the cost function. -/
theorem jacobian_is_gradient_amp (pre post : List (Comp ℝ)) (a0 tau : ℝ) (obs : List (Obs ℝ))
    (hadm : Admissible (pre ++ ⟨a0, tau⟩ :: post))
    (hclip : ∀ c ∈ pre ++ ⟨a0, tau⟩ :: post, (1.0e-14 : ℝ) ≤ c.amp)
    (hok : ∀ o ∈ obs, GradOk (pre ++ ⟨a0, tau⟩ :: post) o) :
    HasDerivAt (fun a => negLogLik (pre ++ ⟨a, tau⟩ :: post) obs)
      ((jacobian (pre ++ ⟨a0, tau⟩ :: post) obs).getD pre.length 0) a0 := by
  rw [jacobian_getD_amp _ obs pre.length (by simp)]
  exact hasDerivAt_negLogLik (fun a => pre ++ ⟨a, tau⟩ :: post) obs _ a0
    fun o ho => gradObs_correct_amp pre post a0 tau o hadm hclip (hok o ho)

/-- `jacobian_is_gradient` (lifetime block): entry `n + i` is the derivative of the negative log-likelihood with
    respect to the lifetime of component `i`. -/
theorem jacobian_is_gradient_tau (pre post : List (Comp ℝ)) (a tau0 : ℝ) (obs : List (Obs ℝ))
    (hadm : Admissible (pre ++ ⟨a, tau0⟩ :: post))
    (hclip : ∀ c ∈ pre ++ ⟨a, tau0⟩ :: post, (1.0e-14 : ℝ) ≤ c.amp)
    (hok : ∀ o ∈ obs, GradOk (pre ++ ⟨a, tau0⟩ :: post) o) :
    HasDerivAt (fun tau => negLogLik (pre ++ ⟨a, tau⟩ :: post) obs)
      ((jacobian (pre ++ ⟨a, tau0⟩ :: post) obs).getD
        ((pre ++ (⟨a, tau0⟩ : Comp ℝ) :: post).length + pre.length) 0) tau0 := by
  rw [jacobian_getD_tau _ obs pre.length (by simp)]
  exact hasDerivAt_negLogLik (fun tau => pre ++ ⟨a, tau⟩ :: post) obs _ tau0
    fun o ho => gradObs_correct_tau pre post a tau0 o hadm hclip (hok o ho)

-- non-vacuity: a continuous and a discretised observation (the latter without upper limit) meet `GradOk`
example : ∀ o ∈ ([⟨2, 0.5, some 10, none⟩, ⟨1.5, 0.5, none, some 0.25⟩] : List (Obs ℝ)),
    GradOk [⟨0.3, 0.5⟩, ⟨0.7, 4⟩] o := by
  intro o ho
  simp only [List.mem_cons, List.not_mem_nil, or_false] at ho
  rcases ho with rfl | rfl
  · refine ⟨fun m hm => ?_, fun c hc m hm => ?_⟩
    · cases hm; norm_num
    · cases hm
      simp only [List.mem_cons, List.not_mem_nil, or_false] at hc
      rcases hc with rfl | rfl <;> norm_num
  · refine ⟨by norm_num, fun m hm => ?_, fun c _ m hm => ?_⟩ <;> cases hm

end Verif.C15
