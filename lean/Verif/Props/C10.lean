/-
  C10 — power spectra: property theorems about the model `Verif/Model/C10.lean`.
  List-level statements hold over every linear order (executed at `Rat` on the implementation's doubles);
  the DFT / PSD statements are about the `ℝ` reading of the `RealLike` formulas.
-/
import Verif.Lemmas.C10

namespace Verif.C10

/-! ## `in_range` and `_exclude_range` -/

section order
variable {α : Type} [LinearOrder α] {β : Type}

/-- **in_range_spec.**  The kept bins are exactly those with `f_min < f ≤ f_max`; the order is preserved
    (a filter of the bins); frequency and power stay paired: the two separately masked arrays are the two
    projections of the filtered list of (frequency, power) pairs. -/
theorem in_range_spec (lo hi : α) (f : List α) (p : List β) (h : f.length = p.length) :
    inRangeLists lo hi f p =
        (((f.zip p).filter (fun b => decide (lo < b.1 ∧ b.1 ≤ hi))).map Prod.fst,
         ((f.zip p).filter (fun b => decide (lo < b.1 ∧ b.1 ≤ hi))).map Prod.snd) ∧
      (inRangeLists lo hi f p).1 = f.filter (fun x => decide (lo < x ∧ x ≤ hi)) ∧
      (inRangeLists lo hi f p).1.zip (inRangeLists lo hi f p).2
        = (f.zip p).filter (fun b => decide (lo < b.1 ∧ b.1 ≤ hi)) := by
  unfold inRangeLists inRangeMask
  simp only [← Bool.decide_and]
  refine ⟨?_, maskSelect_map _ f, maskSelect_zip _ f p h⟩
  rw [maskSelect_fst (fun x => decide (lo < x ∧ x ≤ hi)) f p h,
    maskSelect_snd (fun x => decide (lo < x ∧ x ≤ hi)) f p h]

example : inRangeLists (1 : Int) 3 [0, 1, 2, 3, 4] ["a", "b", "c", "d", "e"] = ([2, 3], ["c", "d"]) := by decide

/-- a frequency is *not excluded* when it lies outside every half-open range `[f_min, f_max)` -/
def notExcluded (ranges : List (α × α)) (x : α) : Bool :=
  ranges.all fun r => !(decide (r.1 ≤ x) && decide (x < r.2))

theorem notExcluded_iff (ranges : List (α × α)) (x : α) :
    notExcluded ranges x = true ↔ ∀ r ∈ ranges, ¬ (r.1 ≤ x ∧ x < r.2) := by
  unfold notExcluded
  rw [List.all_eq_true]
  constructor
  · intro h r hr hx
    have := h r hr
    simp [hx.1, hx.2] at this
  · intro h r hr
    have := h r hr
    by_cases h1 : r.1 ≤ x <;> by_cases h2 : x < r.2 <;> simp [h1, h2]
    exact this ⟨h1, h2⟩

/-- **exclude_spec.**  The kept bins are exactly those outside every `[f_min, f_max)`, in order, paired. -/
theorem exclude_spec (ranges : List (α × α)) (f : List α) (p : List β) (h : f.length = p.length) :
    excludeLists ranges f p =
        (((f.zip p).filter (fun b => notExcluded ranges b.1)).map Prod.fst,
         ((f.zip p).filter (fun b => notExcluded ranges b.1)).map Prod.snd) ∧
      (excludeLists ranges f p).1 = f.filter (notExcluded ranges) ∧
      (excludeLists ranges f p).1.zip (excludeLists ranges f p).2
        = (f.zip p).filter (fun b => notExcluded ranges b.1) := by
  have hmask : excludeMask ranges f = f.map (notExcluded ranges) := by
    unfold excludeMask outsideMask
    rw [andReduce_map f (fun r x => decide (x < r.1) || decide (r.2 ≤ x)) ranges]
    apply List.map_congr_left
    intro x _
    unfold notExcluded
    congr 1
    funext r
    have e1 : decide (r.1 ≤ x) = !decide (x < r.1) := by
      by_cases h1 : x < r.1 <;> simp [h1, not_le.mpr, not_lt.mp]
    have e2 : decide (x < r.2) = !decide (r.2 ≤ x) := by
      by_cases h2 : r.2 ≤ x <;> simp [h2, not_lt.mpr, not_le.mp]
    rw [e1, e2]
    cases decide (x < r.1) <;> cases decide (r.2 ≤ x) <;> rfl
  unfold excludeLists
  split
  · rename_i hemp
    simp only [List.isEmpty_iff] at hemp
    subst hemp
    have hf : ∀ {γ : Type} (l : List γ), l.filter (fun _ => true) = l := fun l => by simp
    have hn : notExcluded ([] : List (α × α)) = fun _ => true := by funext x; simp [notExcluded]
    simp only [hn, hf]
    refine ⟨?_, trivial, trivial⟩
    rw [List.map_snd_zip (by omega), List.map_fst_zip (by omega)]
  · simp only [hmask]
    refine ⟨?_, maskSelect_map _ f, maskSelect_zip _ f p h⟩
    rw [maskSelect_fst (notExcluded ranges) f p h, maskSelect_snd (notExcluded ranges) f p h]

example : excludeLists [((1 : Int), 3), (2, 2)] [0, 1, 2, 3, 4] ["a", "b", "c", "d", "e"]
    = ([0, 3, 4], ["a", "d", "e"]) := by decide

end order

/-! ## block averaging -/

/-- the mean of the bins `i*k … i*k+k-1` (independent specification: an explicit sum over indices) -/
def blockMean (k : Nat) (l : List Rat) (i : Nat) : Rat :=
  ((List.range k).map fun j => l.getD (i * k + j) 0).sum / (k : Rat)

/-- **block_spec.**  `downsample(·, k, mean)` has `⌊n/k⌋` outputs (a trailing incomplete block is dropped)
    and output `i` is the mean of the inputs `i*k … (i+1)*k-1`. -/
theorem block_spec (k : Nat) (hk : 0 < k) (l : List Rat) :
    (downsampleMean k l).length = l.length / k ∧
      ∀ i, i < l.length / k → (downsampleMean k l)[i]? = some (blockMean k l i) := by
  refine ⟨downsampleMean_length k hk l, ?_⟩
  intro i hi
  rw [List.getElem?_eq_getElem (by rw [downsampleMean_length k hk]; exact hi)]
  rw [downsampleMean_getElem k hk l i hi]
  rfl

/-- `downsampled_by(k)`: frequency *and* power are replaced by their block means over the same blocks, and
    `num_points_per_block` is multiplied by `k`. -/
theorem block_spec_spectrum (s : Spec) (k : Nat) (hk : 0 < k) (hlen : s.freq.length = s.power.length) :
    (s.downsampledBy k).nppb = s.nppb * k ∧
      (s.downsampledBy k).freq.length = s.freq.length / k ∧
      (s.downsampledBy k).power.length = s.freq.length / k ∧
      ∀ i, i < s.freq.length / k →
        (s.downsampledBy k).freq[i]? = some (blockMean k s.freq i) ∧
        (s.downsampledBy k).power[i]? = some (blockMean k s.power i) := by
  refine ⟨rfl, (block_spec k hk s.freq).1, ?_, ?_⟩
  · rw [hlen]; exact (block_spec k hk s.power).1
  · intro i hi
    exact ⟨(block_spec k hk s.freq).2 i hi, (block_spec k hk s.power).2 i (by rw [← hlen]; exact hi)⟩

example : downsampleMean 2 [1, 2, 3, 4, 5] = [3/2, 7/2] := by decide +kernel
example : ((mkSpec [1, 2, 3, 4, 5] [2, 2, 4, 4, 9] 1).downsampledBy 2).nppb = 2 := by decide +kernel

/-- blocking twice multiplies the recorded block sizes -/
theorem block_block_nppb (s : Spec) (k₁ k₂ : Nat) :
    ((s.downsampledBy k₁).downsampledBy k₂).nppb = s.nppb * k₁ * k₂ := rfl

/-- **pipeline_order.**  `calculate_power_spectrum` = block ∘ exclude ∘ in_range, in this order, on the
    (frequency, power) pairs of the raw spectrum; `num_points_per_block` is multiplied by `k`. -/
theorem pipeline_order (s : Spec) (lo hi : Rat) (ranges : List (Rat × Rat)) (k : Nat)
    (hlen : s.freq.length = s.power.length) :
    let kept := ((s.freq.zip s.power).filter (fun b => decide (lo < b.1 ∧ b.1 ≤ hi))).filter
      (fun b => notExcluded ranges b.1)
    (s.pipeline lo hi ranges k).freq = downsampleMean k (kept.map Prod.fst) ∧
      (s.pipeline lo hi ranges k).power = downsampleMean k (kept.map Prod.snd) ∧
      (s.pipeline lo hi ranges k).nppb = s.nppb * k := by
  intro kept
  obtain ⟨h1, -, -⟩ := in_range_spec lo hi s.freq s.power hlen
  generalize hK : (s.freq.zip s.power).filter (fun b => decide (lo < b.1 ∧ b.1 ≤ hi)) = K at h1
  obtain ⟨e1, -, -⟩ := exclude_spec ranges (K.map Prod.fst) (K.map Prod.snd) (by simp)
  rw [zip_map_fst_snd] at e1
  have hk : kept = K.filter (fun b => notExcluded ranges b.1) := by simp only [kept, hK]
  simp only [Spec.pipeline, Spec.inRange, Spec.excludeRange, Spec.downsampledBy, h1, e1, hk]
  trivial

/-- non-vacuity of `pipeline_order` (equal lengths), and the three stages on a seven-bin spectrum:
    in_range (1,6], exclude [3,4), blocks of two -/
example : (mkSpec [0, 1, 2, 3, 4, 5, 6] [10, 11, 12, 13, 14, 15, 16] 1).freq.length
    = (mkSpec [0, 1, 2, 3, 4, 5, 6] [10, 11, 12, 13, 14, 15, 16] 1).power.length := by decide
example : ((mkSpec [0, 1, 2, 3, 4, 5, 6] [10, 11, 12, 13, 14, 15, 16] 1).inRange 1 6).freq = [2, 3, 4, 5, 6] := by
  decide +kernel
example : (((mkSpec [0, 1, 2, 3, 4, 5, 6] [10, 11, 12, 13, 14, 15, 16] 1).inRange 1 6).excludeRange [(3, 4)]).power
    = [12, 14, 15, 16] := by decide +kernel
example : ((mkSpec [0, 1, 2, 3, 4, 5, 6] [10, 11, 12, 13, 14, 15, 16] 1).pipeline 1 6 [(3, 4)] 2).nppb = 2 := by
  decide +kernel

/-- **exclude_memoryless.**  What `_exclude_range` keeps is determined by the frequency/power arrays of the spectrum
    it is applied to and by the requested ranges alone: the bookkeeping the object carries from earlier calls
    (`_excluded_ranges`, `_fit_range`, `num_points_per_block`, …) does not enter; in particular a range that was
    excluded before is applied again in full, to whatever frequencies the spectrum has by now. -/
theorem exclude_memoryless (s t : Spec) (ranges : List (Rat × Rat))
    (hf : s.freq = t.freq) (hp : s.power = t.power) (hlen : s.freq.length = s.power.length) :
    (s.excludeRange ranges).freq = (t.excludeRange ranges).freq ∧
      (s.excludeRange ranges).power = (t.excludeRange ranges).power ∧
      (s.excludeRange ranges).freq = s.freq.filter (notExcluded ranges) := by
  refine ⟨?_, ?_, ?_⟩
  · simp only [Spec.excludeRange, hf, hp]
  · simp only [Spec.excludeRange, hf, hp]
  · exact (exclude_spec ranges s.freq s.power hlen).2.1

/-- non-vacuity of `exclude_memoryless`: two spectra with the same arrays and different histories (`t` has the range
    on record as already excluded) -/
example : (mkSpec [0, 3, 4, 5] [10, 13, 14, 15] 2).freq
      = ({ mkSpec [0, 3, 4, 5] [10, 13, 14, 15] 2 with excluded := [(1, 3)] } : Spec).freq ∧
    (mkSpec [0, 3, 4, 5] [10, 13, 14, 15] 2).freq.length = (mkSpec [0, 3, 4, 5] [10, 13, 14, 15] 2).power.length := by
  decide +kernel

/-- excluding the same range again is NOT redundant once the spectrum has been block averaged: after `[1, 3)` has been
    removed from bins 0…5 the block (0, 3) straddles the gap, its mean 3/2 lies inside the range, and the second
    exclusion has to remove it (kernel-checked witness) -/
example :
    (((mkSpec [0, 1, 2, 3, 4, 5] [10, 11, 12, 13, 14, 15] 1).excludeRange [(1, 3)]).downsampledBy 2).freq = [3/2, 9/2] ∧
    ((((mkSpec [0, 1, 2, 3, 4, 5] [10, 11, 12, 13, 14, 15] 1).excludeRange [(1, 3)]).downsampledBy 2).excludeRange
      [(1, 3)]).freq = [9/2] := by decide +kernel

/-! ## `identify_peaks` -/

section peaks
variable {α : Type} [LinearOrder α]

/-- the look-ups of `identify_peaks` (`baseline_indices[peak]`, `baseline_ranges[unique]`) never fail -/
theorem peaks_total (flat : List α) (baseline cutoff : α) (hbc : baseline < cutoff) :
    ∃ R, identifyPeaksIdx flat baseline cutoff = some R := by
  obtain ⟨ys, _, _, _, h⟩ := identifyPeaks_char flat baseline cutoff hbc
  exact ⟨_, h⟩

/-- **peaks_cover.**  Every bin whose normalised power exceeds the cut-off lies in a returned range. -/
theorem peaks_cover (flat : List α) (baseline cutoff : α) (hbc : baseline < cutoff) (R : List (Nat × Nat))
    (hR : identifyPeaksIdx flat baseline cutoff = some R) (i : Nat) (hi : i < flat.length)
    (hpeak : cutoff < flat[i]) : ∃ r ∈ R, r.1 ≤ i ∧ i ≤ r.2 := by
  obtain ⟨ys, _, _, hc, h⟩ := identifyPeaks_char flat baseline cutoff hbc
  rw [hR] at h
  injection h with h
  -- the peak run containing `i`
  have hmi : (fun j => (flat.map fun x => decide (cutoff < x)).getD j false) i = true :=
    (getD_map_true _ flat i).mpr ⟨hi, by simpa using hpeak⟩
  obtain ⟨p, hp, hp1, hp2⟩ := runs_cover _ (flat.map fun x => decide (cutoff < x)) 0 0 (agrees_getD _)
    (Nat.le_refl _) i (Nat.zero_le _) (by simpa using hi) hmi
  obtain ⟨_, _, hp3, _, _⟩ := runs_of_map_ok (fun x => decide (cutoff < x)) flat p hp
  -- the baseline run found for it
  obtain ⟨y, hy, _, b, hb, hb1, hb2⟩ := hc p hp
  have hbmem : b ∈ runsFrom 0 0 (flat.map fun x => decide (baseline ≤ x)) := List.mem_of_getElem? hb
  obtain ⟨_, _, _, _, hb5⟩ := runs_of_map_ok (fun x => decide (baseline ≤ x)) flat b hbmem
  refine ⟨b, ?_, by omega, ?_⟩
  · rw [h]; exact List.mem_map.mpr ⟨y, hy, by simp [hb]⟩
  · -- all bins from the start of the peak run to `i` are above the baseline, so the maximal baseline
    -- run cannot end before `i`
    by_contra hlt
    have hlt : b.2 + 1 ≤ i := by omega
    have habove : (flat.map fun x => decide (baseline ≤ x)).getD (b.2 + 1) false = true := by
      have := hp3 (b.2 + 1) (by omega) (by omega)
      obtain ⟨hl, hq⟩ := (getD_map_true _ flat (b.2 + 1)).mp this
      refine (getD_map_true _ flat (b.2 + 1)).mpr ⟨hl, ?_⟩
      have hq : cutoff < flat[b.2 + 1] := by simpa using hq
      simpa using le_of_lt (lt_trans hbc hq)
    rcases hb5 with hb5 | hb5
    · omega
    · simp only at hb5; rw [habove] at hb5; cases hb5

/-- **peaks_above_baseline.**  Every returned range is a maximal run of bins at or above the baseline:
    all its bins exist and are `≥ baseline`, the bin before it (if any) and the bin after it (if any) are
    below the baseline; and it contains a bin above the cut-off (nothing else is reported). -/
theorem peaks_above_baseline (flat : List α) (baseline cutoff : α) (hbc : baseline < cutoff)
    (R : List (Nat × Nat)) (hR : identifyPeaksIdx flat baseline cutoff = some R) (r : Nat × Nat) (hr : r ∈ R) :
    r.1 ≤ r.2 ∧ r.2 < flat.length ∧
      (∀ j, r.1 ≤ j → j ≤ r.2 → ∃ h : j < flat.length, baseline ≤ flat[j]) ∧
      (r.1 = 0 ∨ ∃ h : r.1 - 1 < flat.length, flat[r.1 - 1] < baseline) ∧
      (r.2 + 1 = flat.length ∨ ∃ h : r.2 + 1 < flat.length, flat[r.2 + 1] < baseline) ∧
      (∃ j, r.1 ≤ j ∧ j ≤ r.2 ∧ ∃ h : j < flat.length, cutoff < flat[j]) := by
  obtain ⟨ys, _, hs, _, h⟩ := identifyPeaks_char flat baseline cutoff hbc
  rw [hR] at h
  injection h with h
  rw [h] at hr
  obtain ⟨y, hy, rfl⟩ := List.mem_map.mp hr
  obtain ⟨_, b, hb, p, hp, hp1, hp2⟩ := hs y hy
  simp only [hb, Option.getD_some]
  have hbmem : b ∈ runsFrom 0 0 (flat.map fun x => decide (baseline ≤ x)) := List.mem_of_getElem? hb
  obtain ⟨h1, h2, h3, h4, h5⟩ := runs_of_map_ok (fun x => decide (baseline ≤ x)) flat b hbmem
  obtain ⟨q1, _, q3, _, _⟩ := runs_of_map_ok (fun x => decide (cutoff < x)) flat p hp
  have below : ∀ j, j < flat.length → (flat.map fun x => decide (baseline ≤ x)).getD j false = false →
      ∃ h : j < flat.length, flat[j] < baseline := by
    intro j hj hf
    refine ⟨hj, ?_⟩
    by_contra hnot
    have : (flat.map fun x => decide (baseline ≤ x)).getD j false = true :=
      (getD_map_true _ flat j).mpr ⟨hj, by simpa using not_lt.mp hnot⟩
    rw [this] at hf; cases hf
  refine ⟨h1, h2, ?_, ?_, ?_, ?_⟩
  · intro j hj1 hj2
    obtain ⟨hl, hq⟩ := (getD_map_true _ flat j).mp (h3 j hj1 hj2)
    exact ⟨hl, by simpa using hq⟩
  · rcases h4 with h4 | h4
    · exact Or.inl h4
    · exact Or.inr (below _ (by omega) h4)
  · rcases h5 with h5 | h5
    · exact Or.inl h5
    · by_cases hlen : b.2 + 1 = flat.length
      · exact Or.inl hlen
      · exact Or.inr (below _ (by omega) h5)
  · obtain ⟨hl, hq⟩ := (getD_map_true _ flat p.1).mp (q3 p.1 (Nat.le_refl _) q1)
    exact ⟨p.1, hp1, hp2, hl, by simpa using hq⟩

/-- **peaks_ordered.**  The returned ranges are in increasing order, pairwise disjoint, and two
    consecutive ones are separated by at least one bin. -/
theorem peaks_ordered (flat : List α) (baseline cutoff : α) (hbc : baseline < cutoff)
    (R : List (Nat × Nat)) (hR : identifyPeaksIdx flat baseline cutoff = some R) :
    R.Pairwise (fun r t => r.2 + 1 < t.1) := by
  obtain ⟨ys, hsorted, hs, _, h⟩ := identifyPeaks_char flat baseline cutoff hbc
  rw [hR] at h
  injection h with h
  rw [h, List.pairwise_map]
  refine List.Pairwise.imp_of_mem ?_ hsorted
  intro y z hy hz hyz
  obtain ⟨hy0, b, hb, _⟩ := hs y hy
  obtain ⟨hz0, c, hc, _⟩ := hs z hz
  simp only [hb, hc, Option.getD_some]
  have hpw := (runs_sorted (flat.map fun x => decide (baseline ≤ x)) 0 0 (Nat.le_refl _)).1
  obtain ⟨hyl, hb'⟩ := List.getElem?_eq_some_iff.mp hb
  obtain ⟨hzl, hc'⟩ := List.getElem?_eq_some_iff.mp hc
  rw [← hb', ← hc']
  exact List.pairwise_iff_getElem.mp hpw y.toNat z.toNat hyl hzl (by omega)

example : identifyPeaksIdx [(0 : Int), 2, 6, 2, 0, 7, 0, 1, 3] 1 5 = some [(1, 3), (5, 5)] := by decide
example : identifyPeaksIdx [(9 : Int), 2, 6, 0, 1, 1, 9] 1 5 = some [(0, 2), (4, 6)] := by decide

end peaks

/-- **peaks_frequency_edges.**  Each reported frequency range starts at the first frequency of its run of bins and ends
    (exclusive) at the frequency of the bin AFTER the run — at the last frequency plus `Δf = f₁ - f₀` only when the run
    ends with the spectrum (rule after the fix of F-C10-1). -/
theorem peaks_frequency_edges (freq : List Rat) (rs : List (Nat × Nat)) (out : List (Rat × Rat))
    (h : rangesToFreq freq rs = some out) (hne : rs ≠ []) :
    ∃ f0 f1, freq[0]? = some f0 ∧ freq[1]? = some f1 ∧
      List.Forall₂ (fun r o => ∃ a b, freq[r.1]? = some a ∧ freq[r.2]? = some b ∧
          o = (a, (freq[r.2 + 1]?).getD (b + (f1 - f0))))
        rs out := by
  unfold rangesToFreq at h
  have hemp : rs.isEmpty = false := by cases rs <;> simp_all
  simp only [hemp, Bool.false_eq_true, ↓reduceIte] at h
  cases h0 : freq[0]? with
  | none => simp [h0] at h
  | some f0 =>
    cases h1 : freq[1]? with
    | none => simp [h0, h1] at h
    | some f1 =>
      simp only [h0, h1] at h
      refine ⟨f0, f1, rfl, rfl, ?_⟩
      refine List.Forall₂.imp ?_ (mapM_option_some _ rs out h)
      intro r o hro
      unfold edgeOf at hro
      cases ha : freq[r.1]? with
      | none => simp [ha] at hro
      | some a =>
        cases hb : freq[r.2]? with
        | none => simp [ha, hb] at hro
        | some b =>
          simp only [ha, hb, Option.some.injEq] at hro
          refine ⟨a, b, rfl, rfl, ?_⟩
          rw [← hro]
          unfold upperEdge
          cases freq[r.2 + 1]? <;> rfl

example : rangesToFreq [0, 1/2, 1, 3/2, 2] [(1, 2), (4, 4)] = some [(1/2, 3/2), (2, 5/2)] := by decide +kernel

/-! ## the one-sided power spectral density (`ℝ` reading of the `RealLike` formulas) -/

section psd

/-- **psd_scale.**  Scaling the signal by `a` scales every bin of the (windowed or not) spectrum by `a²`. -/
theorem psd_scale (a fs : ℝ) (x : List ℝ) (npw : Nat) :
    psdPower (x.map (a * ·)) fs npw = (psdPower x fs npw).map (a * a * ·) := by
  unfold psdPower
  simp only [demean_map_mul, chunks_map, List.map_map]
  have h : (rfftSq ∘ List.map (a * ·)) = (List.map (a * a * ·)) ∘ (rfftSq : List ℝ → List ℝ) := by
    funext l; exact rfftSq_map_mul a l
  rw [h, ← List.map_map, meanRows_map_mul, List.map_map]
  apply List.map_congr_left
  intro v _
  simp only [Function.comp]; ring

/-- **psd_shift_invariant.**  Adding a constant to the signal leaves the spectrum unchanged (the mean is
    removed before anything else, for every window length). -/
theorem psd_shift_invariant (c fs : ℝ) (x : List ℝ) (npw : Nat) :
    psdPower (x.map (· + c)) fs npw = psdPower x fs npw := by
  unfold psdPower
  rw [demean_map_add]

/-- **frequency_axis.**  `rfftfreq(N_w, 1/fs)`: bin `k` is at `k·fs/N_w` for `0 ≤ k ≤ ⌊N_w/2⌋`. -/
theorem frequency_axis (fs : ℝ) (hfs : fs ≠ 0) (npw : Nat) :
    psdFreq fs npw = (List.range (npw / 2 + 1)).map fun (k : ℕ) => (k : ℝ) * fs / (npw : ℝ) := by
  unfold psdFreq rfftfreq
  show List.map _ _ = _
  apply List.map_congr_left
  intro k _
  simp only [ofNat'_real, one_lit]
  by_cases hn : (npw : ℝ) = 0
  · simp [hn]
  · field_simp

example : (psdFreq (10 : ℝ) 4).length = 3 := by simp [psdFreq, rfftfreq]
example : psdFreq (10 : ℝ) 4 = [0, 5 / 2, 5] := by
  rw [frequency_axis 10 (by norm_num) 4]
  simp [List.range_succ]
  norm_num

/-- the spectrum has as many power bins as frequency bins: `⌊N_w/2⌋ + 1` -/
theorem psd_lengths (fs : ℝ) (x : List ℝ) (npw : Nat) :
    (psdPower x fs npw).length = npw / 2 + 1 ∧ (psdFreq fs npw).length = npw / 2 + 1 := by
  simp [psdPower, psdFreq, rfftfreq, meanRows]

/-- **bin_width.**  `frequency_bin_width` of a spectrum made of `nc ≥ 1` windows of `npw` points is
    `fs/N_w`, and block averaging by `k` multiplies it by `k`. -/
theorem bin_width (s : Spec) (npw nc : Nat) (hnc : nc ≠ 0) (h1 : s.totalSampledUsed = npw * nc)
    (h2 : s.nppb = nc) (k : Nat) :
    s.binWidth = s.sampleRate / (npw : Rat) ∧ (s.downsampledBy k).binWidth = s.binWidth * (k : Rat) := by
  have hq : (nc : Rat) ≠ 0 := by exact_mod_cast hnc
  constructor
  · unfold Spec.binWidth
    rw [h1, h2]
    by_cases hn : (npw : Rat) = 0
    · simp [hn]
    · push_cast; field_simp
  · unfold Spec.binWidth Spec.downsampledBy
    push_cast; ring

/-- **windowed_is_mean.**  For every bin `1 ≤ k ≤ ⌊N_w/2⌋` the windowed spectrum is the mean, over the
    `⌊N/N_w⌋` windows, of the un-windowed spectra of the single windows (each computed on its own, i.e. with the
    window's own mean removed).  Bin `0` is excluded on purpose: the code removes the *global* mean once, so the
    zero-frequency bin of the windowed spectrum carries the spread of the window means, whereas each
    single-window spectrum has an empty bin `0` (see `psd_bin0`). -/
theorem windowed_is_mean (fs : ℝ) (x : List ℝ) (npw k : Nat) (hk1 : 1 ≤ k) (hk2 : k ≤ npw / 2) :
    (psdPower x fs npw).getD k 0 =
      rsum ((chunks x npw).map fun w => (psdPower w fs w.length).getD k 0) / ((x.length / npw : ℕ) : ℝ) := by
  have hkN : k < npw := by omega
  -- right-hand side: every window is a full single-window spectrum
  have hR : ((chunks x npw).map fun w => (psdPower w fs w.length).getD k 0)
      = ((chunks x npw).map fun w => dftSq w k).map (scaling fs npw * ·) := by
    rw [List.map_map]
    apply List.map_congr_left
    intro w hw
    have hl := mem_chunks_length x npw w hw
    simp only [Function.comp]
    rw [hl, psdPower_single fs w npw k hl hk1 hk2]
  -- left-hand side: the global mean drops out of every window for k ≥ 1
  have hL : (((chunks (demean x) npw).map rfftSq).map fun r => r.getD k (0.0 : ℝ))
      = (chunks x npw).map fun w => dftSq w k := by
    unfold demean
    rw [chunks_map, List.map_map, List.map_map]
    apply List.map_congr_left
    intro w hw
    have hl := mem_chunks_length x npw w hw
    simp only [Function.comp]
    unfold rfftSq
    rw [List.length_map, hl, getD_map_range _ _ _ _ (by omega)]
    exact dftSq_sub_const _ w k (by omega) (by omega)
  rw [hR, rsum_map_mul, psdPower_def]
  unfold meanRows
  rw [List.map_map, getD_map_range _ _ _ _ (by omega)]
  simp only [Function.comp]
  have hlen : (chunks (demean x) npw).length = x.length / npw := by
    rw [chunks_length]; simp [demean]
  rw [hL, ofNat'_real, List.length_map, hlen]
  ring

/-- non-vacuity of the hypotheses of `windowed_is_mean`: bin 1 of windows of two points -/
example : (1 : ℕ) ≤ 1 ∧ 1 ≤ 2 / 2 := by decide

/-- **psd_bin0.**  Without windowing the zero-frequency bin is empty (the mean has been removed). -/
theorem psd_bin0 (fs : ℝ) (x : List ℝ) (hx : x ≠ []) : (psdPower x fs x.length).getD 0 1 = 0 := by
  have hn : 0 < x.length := List.length_pos_iff.mpr hx
  have hdl : (demean x).length = x.length := by simp [demean]
  rw [psdPower_def, chunks_self _ x.length hn hdl]
  simp only [List.map_cons, List.map_nil, meanRows, List.map_map, List.length_singleton]
  rw [getD_map_range _ _ _ _ (by omega)]
  simp only [Function.comp, rsum, ofNat'_real, zero_lit]
  unfold rfftSq
  rw [hdl, getD_map_range _ _ _ _ (by omega), dftSq_demean_zero]
  simp

/-- **parseval_one_sided** (ext).  Without windowing the one-sided spectrum integrates to the variance of the
    signal (`variance` = `np.var`, the population variance, defined without reference to the model), the
    Nyquist bin of an even-length signal being counted once (half of its doubled weight):
    `var x = Δf · (Σ_{0<k<N/2} P_k + ½·[N even]·P_{N/2})` with `Δf = fs/N`; bin 0 is empty (`psd_bin0`).
    Proof: Plancherel for the model's cos/sin DFT (orthogonality of the roots of unity), conjugate symmetry
    `|X_{N-k}|² = |X_k|²`, folding of the full period onto the lower half. -/
theorem parseval_one_sided (fs : ℝ) (hfs : fs ≠ 0) (x : List ℝ) (hx : x ≠ []) :
    variance x = fs / (x.length : ℝ) *
      (∑ k ∈ Finset.range ((x.length - 1) / 2), (psdPower x fs x.length).getD (k + 1) 0
        + if x.length % 2 = 0 then (psdPower x fs x.length).getD (x.length / 2) 0 / 2 else 0) := by
  have hn : 0 < x.length := List.length_pos_iff.mpr hx
  have hN : (x.length : ℝ) ≠ 0 := by
    have : x.length ≠ 0 := by omega
    exact_mod_cast this
  have hdl : (demean x).length = x.length := by simp [demean]
  have hsym : ∀ k, 0 < k → k < x.length → dftSq (demean x) (x.length - k) = dftSq (demean x) k := by
    intro k _ hk
    have := dftSq_reflect (demean x) k (by omega)
    rwa [hdl] at this
  have hS0 := dftSq_demean_zero x
  have htot := total_power x
  have hbins : ∀ k ∈ Finset.range ((x.length - 1) / 2),
      (psdPower x fs x.length).getD (k + 1) 0 = scaling fs x.length * dftSq (demean x) (k + 1) := by
    intro k hk
    have := Finset.mem_range.mp hk
    exact psdPower_unwindowed fs x hx (k + 1) (by omega)
  rw [Finset.sum_congr rfl hbins, ← Finset.mul_sum]
  have hsc : scaling fs x.length = 2 / fs / (x.length : ℝ) := by
    unfold scaling; rw [ofNat'_real, two_lit]
  rcases Nat.even_or_odd' x.length with ⟨h, hh | hh⟩
  · -- even length: N = 2h, h ≥ 1
    obtain ⟨h', rfl⟩ : ∃ h', h = h' + 1 := ⟨h - 1, by omega⟩
    have hN2 : x.length = 2 * h' + 2 := by omega
    have hfold := fold_even (fun k => dftSq (demean x) k) h' (by
      intro k hk1 hk2
      have := hsym k hk1 (by omega)
      rwa [hN2] at this)
    rw [← hN2, htot, hS0] at hfold
    have e1 : (x.length - 1) / 2 = h' := by omega
    have e2 : x.length % 2 = 0 := by omega
    have e3 : x.length / 2 = h' + 1 := by omega
    rw [e1, if_pos e2, e3, psdPower_unwindowed fs x hx (h' + 1) (by omega), hsc]
    field_simp
    linarith
  · -- odd length: N = 2h + 1
    have hfold := fold_odd (fun k => dftSq (demean x) k) h (by
      intro k hk1 hk2
      have := hsym k hk1 (by omega)
      rwa [hh] at this)
    rw [← hh, htot, hS0] at hfold
    have e1 : (x.length - 1) / 2 = h := by omega
    have e2 : ¬ x.length % 2 = 0 := by omega
    rw [e1, if_neg e2, hsc]
    field_simp
    linarith


/-- **parseval_windowed** (ext).  Parseval for EVERY window length `1 ≤ N_w ≤ N`: the one-sided windowed spectrum
    (zero-frequency bin and Nyquist bin counted once, i.e. with half of their doubled weight; the zero-frequency bin is
    not empty here because the mean is removed globally, not per window) integrates, with `Δf = fs/N_w`, to the mean
    square deviation from the signal's mean of the `⌊N/N_w⌋·N_w` samples the windows use (`usedMeanSq`, written
    without reference to the model).  Proof: Plancherel + conjugate symmetry per window, summed over the windows,
    which tile the used samples. -/
theorem parseval_windowed (fs : ℝ) (hfs : fs ≠ 0) (x : List ℝ) (npw : ℕ) (hn : 0 < npw) (hle : npw ≤ x.length) :
    usedMeanSq x npw = fs / (npw : ℝ) *
      ((psdPower x fs npw).getD 0 0 / 2
        + ∑ k ∈ Finset.range ((npw - 1) / 2), (psdPower x fs npw).getD (k + 1) 0
        + if npw % 2 = 0 then (psdPower x fs npw).getD (npw / 2) 0 / 2 else 0) := by
  have hnc : 0 < x.length / npw := Nat.div_pos hle hn
  have hncR : ((x.length / npw : ℕ) : ℝ) ≠ 0 := by
    have : x.length / npw ≠ 0 := by omega
    exact_mod_cast this
  have hnR : (npw : ℝ) ≠ 0 := by
    have : npw ≠ 0 := by omega
    exact_mod_cast this
  have hbins : ∀ k ∈ Finset.range ((npw - 1) / 2), (psdPower x fs npw).getD (k + 1) 0
      = scaling fs npw / ((x.length / npw : ℕ) : ℝ) * ((chunks (demean x) npw).map fun w => dftSq w (k + 1)).sum := by
    intro k hk
    have := Finset.mem_range.mp hk
    rw [psdPower_bin fs x npw (k + 1) (by omega)]; ring
  rw [Finset.sum_congr rfl hbins, ← Finset.mul_sum, psdPower_bin fs x npw 0 (by omega),
    psdPower_bin fs x npw (npw / 2) (Nat.le_refl _)]
  have hW := oneSided_windows (chunks (demean x) npw) npw hn (fun w hw => mem_chunks_length _ npw w hw)
  rw [sum_chunks] at hW
  have hd : (demean x).length = x.length := by simp [demean]
  have hdm : (List.take (x.length / npw * npw) (demean x)).map (fun v => v * v)
      = (x.take (x.length / npw * npw)).map fun v => (v - x.sum / x.length) * (v - x.sum / x.length) := by
    unfold demean mean
    rw [← List.map_take, List.map_map, rsum_real, ofNat'_real]
    rfl
  rw [hd, hdm] at hW
  unfold usedMeanSq
  generalize ((x.take (x.length / npw * npw)).map fun v => (v - x.sum / x.length) * (v - x.sum / x.length)).sum = SS at hW ⊢
  have hsc : scaling fs npw = 2 / fs / (npw : ℝ) := by
    unfold scaling; rw [ofNat'_real, two_lit]
  unfold oneSided at hW
  beta_reduce at hW
  rw [hsc]
  push_cast
  generalize (∑ k ∈ Finset.range ((npw - 1) / 2), ((chunks (demean x) npw).map fun w => dftSq w (k + 1)).sum) = M at hW ⊢
  generalize ((chunks (demean x) npw).map fun w => dftSq w 0).sum = A at hW ⊢
  generalize ((chunks (demean x) npw).map fun w => dftSq w (npw / 2)).sum = B at hW ⊢
  generalize ((x.length / npw : ℕ) : ℝ) = C at hncR ⊢
  by_cases he : npw % 2 = 0
  · rw [if_pos he] at hW ⊢
    field_simp
    linarith
  · rw [if_neg he] at hW ⊢
    field_simp
    linarith

/-- **parseval_windowed_divides.**  When the window length divides the signal length the windowed one-sided spectrum
    integrates to the variance of the whole signal (`parseval_one_sided` is the case `N_w = N`, where bin 0 is empty). -/
theorem parseval_windowed_divides (fs : ℝ) (hfs : fs ≠ 0) (x : List ℝ) (hx : x ≠ []) (npw : ℕ) (hn : 0 < npw)
    (hd : npw ∣ x.length) :
    variance x = fs / (npw : ℝ) *
      ((psdPower x fs npw).getD 0 0 / 2
        + ∑ k ∈ Finset.range ((npw - 1) / 2), (psdPower x fs npw).getD (k + 1) 0
        + if npw % 2 = 0 then (psdPower x fs npw).getD (npw / 2) 0 / 2 else 0) := by
  rw [← usedMeanSq_of_dvd x npw hd]
  exact parseval_windowed fs hfs x npw hn (Nat.le_of_dvd (List.length_pos_iff.mpr hx) hd)

/-- non-vacuity: windows of 2 points on a 6-point signal (3 windows, 2 ∣ 6), and windows of 4 points (1 window, a
    remainder of 2 samples is not used) -/
example : (0 : ℕ) < 2 ∧ 2 ∣ ([1, 2, 4, 8, 16, 32] : List ℝ).length := by simp
example : (0 : ℕ) < 4 ∧ 4 ≤ ([1, 2, 4, 8, 16, 32] : List ℝ).length := by simp
/-- the used mean square really differs from the variance when there is a remainder: `x = [0,0,0,0,3]`, windows of 2 -/
example : usedMeanSq [0, 0, 0, 0, 3] 2 = 9 / 25 ∧ variance [0, 0, 0, 0, 3] = 36 / 25 := by
  unfold usedMeanSq variance; norm_num

/-- non-vacuity: a two-point signal with unit sample rate; its variance is 1/4 -/
example : variance [0, 1] = 1 / 4 := by
  unfold variance; norm_num

/-- non-vacuity of `bin_width`: 3 windows of 8 points at 10 Hz, blocks of 2 -/
example : ({ mkSpec [] [] 3 with sampleRate := 10, totalSampledUsed := 24 } : Spec).binWidth = 5 / 4 := by
  decide +kernel

end psd

/-! ## composition laws: derive → derive → query -/

section order
variable {α : Type} [LinearOrder α] {β : Type}

theorem inRangeLists_eq (lo hi : α) (f : List α) (p : List β) (h : f.length = p.length) :
    inRangeLists lo hi f p =
        (((f.zip p).filter (fun b => decide (lo < b.1 ∧ b.1 ≤ hi))).map Prod.fst,
         ((f.zip p).filter (fun b => decide (lo < b.1 ∧ b.1 ≤ hi))).map Prod.snd) :=
  (in_range_spec lo hi f p h).1

theorem excludeLists_eq (ranges : List (α × α)) (f : List α) (p : List β) (h : f.length = p.length) :
    excludeLists ranges f p =
        (((f.zip p).filter (fun b => notExcluded ranges b.1)).map Prod.fst,
         ((f.zip p).filter (fun b => notExcluded ranges b.1)).map Prod.snd) :=
  (exclude_spec ranges f p h).1

theorem notExcluded_append (r₁ r₂ : List (α × α)) (x : α) :
    notExcluded (r₁ ++ r₂) x = (notExcluded r₁ x && notExcluded r₂ x) := by
  unfold notExcluded; rw [List.all_append]

/-- two restrictions in a row are the restriction to the intersection -/
theorem inRangeLists_twice (a b c d : α) (f : List α) (p : List β) (h : f.length = p.length) :
    inRangeLists c d (inRangeLists a b f p).1 (inRangeLists a b f p).2 = inRangeLists (max a c) (min b d) f p := by
  rw [inRangeLists_eq a b f p h]
  simp only
  rw [inRangeLists_eq c d _ _ (by simp), zip_map_fst_snd, inRangeLists_eq _ _ f p h, List.filter_filter]
  have : (fun b_1 : α × β => decide (c < b_1.1 ∧ b_1.1 ≤ d) && decide (a < b_1.1 ∧ b_1.1 ≤ b))
      = fun b_1 : α × β => decide (max a c < b_1.1 ∧ b_1.1 ≤ min b d) := by
    funext x
    rw [← Bool.decide_and]
    apply decide_eq_decide.mpr
    rw [max_lt_iff, le_min_iff]
    tauto
  rw [this]

theorem excludeLists_twice (r₁ r₂ : List (α × α)) (f : List α) (p : List β) (h : f.length = p.length) :
    excludeLists r₂ (excludeLists r₁ f p).1 (excludeLists r₁ f p).2 = excludeLists (r₁ ++ r₂) f p := by
  rw [excludeLists_eq r₁ f p h]
  simp only
  rw [excludeLists_eq r₂ _ _ (by simp), zip_map_fst_snd, excludeLists_eq _ f p h, List.filter_filter]
  have : (fun b : α × β => notExcluded r₂ b.1 && notExcluded r₁ b.1) = fun b : α × β => notExcluded (r₁ ++ r₂) b.1 := by
    funext x
    rw [notExcluded_append, Bool.and_comm]
  rw [this]

theorem inRange_exclude_comm (a b : α) (rs : List (α × α)) (f : List α) (p : List β) (h : f.length = p.length) :
    excludeLists rs (inRangeLists a b f p).1 (inRangeLists a b f p).2
      = inRangeLists a b (excludeLists rs f p).1 (excludeLists rs f p).2 := by
  rw [inRangeLists_eq a b f p h, excludeLists_eq rs f p h]
  simp only
  rw [excludeLists_eq rs _ _ (by simp), inRangeLists_eq a b _ _ (by simp), zip_map_fst_snd, zip_map_fst_snd,
    List.filter_filter, List.filter_filter]
  have : (fun x : α × β => notExcluded rs x.1 && decide (a < x.1 ∧ x.1 ≤ b))
      = fun x : α × β => decide (a < x.1 ∧ x.1 ≤ b) && notExcluded rs x.1 := by
    funext x; rw [Bool.and_comm]
  rw [this]

end order

theorem pyMax_assoc (x a c : Rat) : pyMax (pyMax x a) c = pyMax x (max a c) := by
  unfold pyMax
  rcases le_total a c with h | h
  · rw [max_eq_right h]
    by_cases h1 : a > x
    · rw [if_pos h1]
      by_cases h2 : c > a
      · rw [if_pos h2, if_pos (lt_trans h1 h2)]
      · have : c = a := le_antisymm (not_lt.mp h2) h
        subst this
        rw [if_neg h2, if_pos h1]
    · rw [if_neg h1]
  · rw [max_eq_left h]
    by_cases h1 : a > x
    · rw [if_pos h1, if_neg (not_lt.mpr h)]
    · rw [if_neg h1]
      have : ¬ c > x := fun hc => h1 (lt_of_lt_of_le hc h)
      rw [if_neg this]

theorem pyMin_assoc (x b d : Rat) : pyMin (pyMin x b) d = pyMin x (min b d) := by
  unfold pyMin
  rcases le_total b d with h | h
  · rw [min_eq_left h]
    by_cases h1 : b < x
    · rw [if_pos h1, if_neg (not_lt.mpr h)]
    · rw [if_neg h1]
      have : ¬ d < x := fun hc => h1 (lt_of_le_of_lt h hc)
      rw [if_neg this]
  · rw [min_eq_right h]
    by_cases h1 : b < x
    · rw [if_pos h1]
      by_cases h2 : d < b
      · rw [if_pos h2, if_pos (lt_trans h2 h1)]
      · have : d = b := le_antisymm h (not_lt.mp h2)
        subst this
        rw [if_neg h2, if_pos h1]
    · rw [if_neg h1]

/-- **in_range_in_range.**  Two restrictions in a row are the restriction to the intersection `(max a c, min b d]` —
    arrays and `_fit_range` bookkeeping alike: the whole object is the same. -/
theorem in_range_in_range (s : Spec) (a b c d : Rat) (hlen : s.freq.length = s.power.length) :
    (s.inRange a b).inRange c d = s.inRange (max a c) (min b d) := by
  unfold Spec.inRange
  simp only [inRangeLists_twice a b c d s.freq s.power hlen, pyMax_assoc, pyMin_assoc]

/-- **exclude_exclude.**  Excluding `r₁` and then `r₂` is excluding `r₁ ++ r₂` at once (arrays and the record
    `_excluded_ranges`); with `r₂ = r₁`: excluding twice in a row removes nothing more. -/
theorem exclude_exclude (s : Spec) (r₁ r₂ : List (Rat × Rat)) (hlen : s.freq.length = s.power.length) :
    (s.excludeRange r₁).excludeRange r₂ = s.excludeRange (r₁ ++ r₂) := by
  unfold Spec.excludeRange
  simp only [excludeLists_twice r₁ r₂ s.freq s.power hlen, List.append_assoc]

/-- **in_range_exclude_comm.**  Restriction and exclusion commute (the whole object is the same). -/
theorem in_range_exclude_comm (s : Spec) (a b : Rat) (rs : List (Rat × Rat)) (hlen : s.freq.length = s.power.length) :
    (s.inRange a b).excludeRange rs = (s.excludeRange rs).inRange a b := by
  unfold Spec.inRange Spec.excludeRange
  simp only [inRange_exclude_comm a b rs s.freq s.power hlen]


/-- **block_block.**  Block averaging by `k₁` and then by `k₂` is block averaging by `k₁·k₂`: same frequencies, same
    powers (a mean of `k₂` means of `k₁` bins is the mean of the `k₁·k₂` bins; `⌊⌊n/k₁⌋/k₂⌋ = ⌊n/(k₁k₂)⌋` blocks),
    and the recorded `num_points_per_block` is the product — the whole object is the same. -/
theorem block_block (s : Spec) (k₁ k₂ : Nat) (h₁ : 0 < k₁) (h₂ : 0 < k₂) :
    (s.downsampledBy k₁).downsampledBy k₂ = s.downsampledBy (k₁ * k₂) := by
  unfold Spec.downsampledBy
  simp only [downsampleMean_twice k₁ k₂ h₁ h₂, Nat.mul_assoc]

example : ((mkSpec [0, 1, 2, 3, 4, 5, 6] [1, 2, 3, 4, 5, 6, 7] 1).downsampledBy 2).downsampledBy 3
    = (mkSpec [0, 1, 2, 3, 4, 5, 6] [1, 2, 3, 4, 5, 6, 7] 1).downsampledBy 6 := by decide +kernel

/-! ### what every derived spectrum keeps: paired arrays, `_fit_range` bounds the frequencies -/

/-- frequency and power have the same number of bins -/
def Spec.Paired (s : Spec) : Prop := s.freq.length = s.power.length

/-- `_fit_range` bounds every frequency of the spectrum -/
def Spec.FitOK (s : Spec) : Prop := ∀ x ∈ s.freq, s.fitLo ≤ x ∧ x ≤ s.fitHi

/-- **paired_preserved.**  Every derivation step returns paired arrays when given paired arrays (so the hypothesis
    `freq.length = power.length` of the theorems above is established by the constructor and kept by the code). -/
theorem paired_preserved (s : Spec) (h : s.Paired) (st : Step) : (s.step st).Paired := by
  unfold Spec.Paired at *
  cases st with
  | inRange lo hi =>
    show (inRangeLists lo hi s.freq s.power).1.length = (inRangeLists lo hi s.freq s.power).2.length
    rw [inRangeLists_eq lo hi s.freq s.power h]; simp
  | exclude rs =>
    show (excludeLists rs s.freq s.power).1.length = (excludeLists rs s.freq s.power).2.length
    rw [excludeLists_eq rs s.freq s.power h]; simp
  | block k =>
    show (downsampleMean k s.freq).length = (downsampleMean k s.power).length
    by_cases hk : 0 < k
    · rw [downsampleMean_length k hk, downsampleMean_length k hk, h]
    · have : k = 0 := by omega
      subst this
      simp [downsampleMean, reshapeRows, roundDown]

theorem run_paired (steps : List Step) : ∀ (s : Spec), s.Paired → (s.run steps).Paired := by
  induction steps with
  | nil => intro s h; exact h
  | cons st rest ih => intro s h; exact ih _ (paired_preserved s h st)

theorem pyMax_ge (x a : Rat) : x ≤ pyMax x a ∧ a ≤ pyMax x a := by
  unfold pyMax; split <;> [exact ⟨le_of_lt ‹_›, le_refl _⟩; exact ⟨le_refl _, not_lt.mp ‹_›⟩]

theorem pyMax_cases (x a : Rat) : pyMax x a = x ∨ pyMax x a = a := by
  unfold pyMax; split <;> simp

theorem pyMin_cases (x a : Rat) : pyMin x a = x ∨ pyMin x a = a := by
  unfold pyMin; split <;> simp

/-- **fit_range_invariant.**  `_fit_range` keeps bounding the frequencies: `in_range` tightens it to the requested
    range (`max`/`min`), exclusion removes bins, block means lie between the smallest and the largest member of
    their block. -/
theorem fit_range_invariant (s : Spec) (hp : s.Paired) (h : s.FitOK) (st : Step) (hk : st ≠ .block 0) :
    (s.step st).FitOK := by
  unfold Spec.FitOK at *
  cases st with
  | inRange lo hi =>
    intro x hx
    have hx : x ∈ (inRangeLists lo hi s.freq s.power).1 := hx
    rw [(in_range_spec lo hi s.freq s.power hp).2.1, List.mem_filter] at hx
    obtain ⟨hm, hc⟩ := hx
    have hc : lo < x ∧ x ≤ hi := by simpa using hc
    show pyMax s.fitLo lo ≤ x ∧ x ≤ pyMin s.fitHi hi
    constructor
    · rcases pyMax_cases s.fitLo lo with e | e <;> rw [e]
      · exact (h x hm).1
      · exact le_of_lt hc.1
    · rcases pyMin_cases s.fitHi hi with e | e <;> rw [e]
      · exact (h x hm).2
      · exact hc.2
  | exclude rs =>
    intro x hx
    have hx : x ∈ (excludeLists rs s.freq s.power).1 := hx
    rw [(exclude_spec rs s.freq s.power hp).2.1, List.mem_filter] at hx
    exact h x hx.1
  | block k =>
    have hk : 0 < k := by
      rcases Nat.eq_zero_or_pos k with rfl | h0
      · exact absurd rfl hk
      · exact h0
    intro x hx
    have hx : x ∈ downsampleMean k s.freq := hx
    obtain ⟨b1, -, b3⟩ := downsampleMean_bounds k hk s.freq s.fitLo s.fitHi
    exact ⟨b1 (fun y hy => (h y hy).1) x hx, b3 (fun y hy => (h y hy).2) x hx⟩

/-- the constructor establishes the invariants: `_fit_range = (frequency.min(), frequency.max())` -/
theorem initial_invariants (f p : List Rat) (fs : Rat) (n npw : Nat) (hlen : f.length = p.length) :
    (Spec.initial f p fs n npw).Paired ∧ (Spec.initial f p fs n npw).FitOK := by
  refine ⟨hlen, ?_⟩
  intro x hx
  have hx : x ∈ f := hx
  have hne : f ≠ [] := List.ne_nil_of_mem hx
  obtain ⟨lo, hi, hfi⟩ := fitInit_isSome f hne
  show ((fitInit f).getD (0, 0)).1 ≤ x ∧ x ≤ ((fitInit f).getD (0, 0)).2
  rw [hfi]
  exact (fitInit_spec f lo hi hfi).2.2 x hx

/-- **chain_invariants.**  At the end of every chain of `in_range` / `_exclude_range` / `downsampled_by(k ≥ 1)` calls
    on a freshly constructed spectrum the arrays are paired, `_fit_range` bounds the frequencies, and
    `num_points_per_block` is the constructor's value times the product of the block sizes. -/
theorem chain_invariants (steps : List Step) (hk : ∀ st ∈ steps, st ≠ .block 0) : ∀ (s : Spec), s.Paired → s.FitOK →
    (s.run steps).Paired ∧ (s.run steps).FitOK ∧
      (s.run steps).nppb = s.nppb * (steps.map fun st => match st with | .block k => k | _ => 1).prod := by
  induction steps with
  | nil => intro s h1 h2; exact ⟨h1, h2, by simp [Spec.run]⟩
  | cons st rest ih =>
    intro s h1 h2
    have := ih (fun t ht => hk t (List.mem_cons_of_mem _ ht)) (s.step st) (paired_preserved s h1 st)
      (fit_range_invariant s h1 h2 st (hk st List.mem_cons_self))
    refine ⟨this.1, this.2.1, ?_⟩
    show ((s.step st).run rest).nppb = _
    rw [this.2.2, List.map_cons, List.prod_cons, ← Nat.mul_assoc]
    congr 1
    cases st <;> simp [Spec.step, Spec.inRange, Spec.excludeRange, Spec.downsampledBy]

example : (Spec.initial [0, 1, 2, 3] [5, 6, 7, 8] 8 6 6).FitOK ∧ (Spec.initial [0, 1, 2, 3] [5, 6, 7, 8] 8 6 6).Paired := by
  refine ⟨?_, rfl⟩
  intro x hx
  have : (Spec.initial [0, 1, 2, 3] [5, 6, 7, 8] 8 6 6).fitLo = 0 ∧ (Spec.initial [0, 1, 2, 3] [5, 6, 7, 8] 8 6 6).fitHi = 3 := by
    decide +kernel
  rw [this.1, this.2]
  have hx : x ∈ ([0, 1, 2, 3] : List Rat) := hx
  simp only [List.mem_cons, List.not_mem_nil, or_false] at hx
  rcases hx with rfl | rfl | rfl | rfl <;> norm_num

/-- what a chain of range steps keeps of a bin at frequency `x` -/
def keepBy (steps : List Step) (x : Rat) : Bool :=
  steps.all fun st => match st with
    | .inRange lo hi => decide (lo < x ∧ x ≤ hi)
    | .exclude rs => notExcluded rs x
    | .block _ => true

/-- **chain_filter.**  A chain of any number of `in_range` and `_exclude_range` calls (no block averaging in between)
    keeps exactly the bins that every single step keeps, in order, frequency and power paired — a filter of the bins of
    the spectrum the chain started from; nothing else about the intermediate objects matters. -/
theorem chain_filter (steps : List Step) (hnb : ∀ st ∈ steps, ∀ k, st ≠ .block k) : ∀ (s : Spec), s.Paired →
    (s.run steps).freq.zip (s.run steps).power = (s.freq.zip s.power).filter (fun b => keepBy steps b.1) ∧
    (s.run steps).freq = s.freq.filter (keepBy steps) := by
  induction steps with
  | nil =>
    intro s _
    have : keepBy [] = fun _ => true := by funext x; simp [keepBy]
    simp [Spec.run, this]
  | cons st rest ih =>
    intro s hp
    obtain ⟨i1, i2⟩ := ih (fun t ht => hnb t (List.mem_cons_of_mem _ ht)) (s.step st) (paired_preserved s hp st)
    have hrun : s.run (st :: rest) = (s.step st).run rest := rfl
    rw [hrun, i1, i2]
    have hk : ∀ x, keepBy (st :: rest) x = (keepBy [st] x && keepBy rest x) := by
      intro x; simp [keepBy]
    cases st with
    | block k => exact absurd rfl (hnb _ List.mem_cons_self k)
    | inRange lo hi =>
      have e := in_range_spec lo hi s.freq s.power hp
      show ((inRangeLists lo hi s.freq s.power).1.zip (inRangeLists lo hi s.freq s.power).2).filter _ = _ ∧
        (inRangeLists lo hi s.freq s.power).1.filter _ = _
      rw [e.2.2, e.2.1, List.filter_filter, List.filter_filter]
      constructor
      · congr 1; funext b; rw [hk, Bool.and_comm]; simp [keepBy]
      · congr 1; funext b; rw [hk, Bool.and_comm]; simp [keepBy]
    | exclude rs =>
      have e := exclude_spec rs s.freq s.power hp
      show ((excludeLists rs s.freq s.power).1.zip (excludeLists rs s.freq s.power).2).filter _ = _ ∧
        (excludeLists rs s.freq s.power).1.filter _ = _
      rw [e.2.2, e.2.1, List.filter_filter, List.filter_filter]
      constructor
      · congr 1; funext b; rw [hk, Bool.and_comm]; simp [keepBy]
      · congr 1; funext b; rw [hk, Bool.and_comm]; simp [keepBy]

/-- **chain_order_irrelevant.**  Range steps commute: any reordering of a chain of `in_range` / `_exclude_range`
    calls yields the same frequencies and the same powers. -/
theorem chain_order_irrelevant (steps₁ steps₂ : List Step) (hperm : steps₁.Perm steps₂)
    (hnb : ∀ st ∈ steps₁, ∀ k, st ≠ .block k) (s : Spec) (hp : s.Paired) :
    (s.run steps₁).freq = (s.run steps₂).freq ∧
      (s.run steps₁).freq.zip (s.run steps₁).power = (s.run steps₂).freq.zip (s.run steps₂).power := by
  have hnb₂ : ∀ st ∈ steps₂, ∀ k, st ≠ .block k := fun st h => hnb st (hperm.mem_iff.mpr h)
  obtain ⟨a1, a2⟩ := chain_filter steps₁ hnb s hp
  obtain ⟨b1, b2⟩ := chain_filter steps₂ hnb₂ s hp
  have hk : keepBy steps₁ = keepBy steps₂ := by
    funext x
    unfold keepBy
    exact hperm.all_eq
  rw [a1, a2, b1, b2, hk]
  exact ⟨rfl, rfl⟩

example : (mkSpec [0, 1, 2, 3, 4, 5] [10, 11, 12, 13, 14, 15] 1).Paired := rfl
example : ((mkSpec [0, 1, 2, 3, 4, 5] [10, 11, 12, 13, 14, 15] 1).run [.exclude [(2, 3)], .inRange 0 4, .exclude [(4, 9)]]).freq
    = [1, 3] := by decide +kernel

/-- **pipeline_in_fit_range.**  Every frequency `calculate_power_spectrum` returns lies in the requested fit range
    `f_min < f ≤ f_max` — also after block averaging (block means of bins inside the range).  The same is NOT true of
    the excluded ranges: a block that straddles the gap an exclusion left has its mean inside the excluded range (see
    the witness after `exclude_memoryless`). -/
theorem pipeline_in_fit_range (s : Spec) (lo hi : Rat) (ranges : List (Rat × Rat)) (k : Nat) (hk : 0 < k)
    (hp : s.Paired) : ∀ x ∈ (s.pipeline lo hi ranges k).freq, lo < x ∧ x ≤ hi := by
  have h1 : ∀ x ∈ (s.inRange lo hi).freq, lo < x ∧ x ≤ hi := by
    intro x hx
    have hx : x ∈ (inRangeLists lo hi s.freq s.power).1 := hx
    rw [(in_range_spec lo hi s.freq s.power hp).2.1, List.mem_filter] at hx
    simpa using hx.2
  have hp1 : (s.inRange lo hi).Paired := paired_preserved s hp (.inRange lo hi)
  have h2 : ∀ x ∈ ((s.inRange lo hi).excludeRange ranges).freq, lo < x ∧ x ≤ hi := by
    intro x hx
    have hx : x ∈ (excludeLists ranges (s.inRange lo hi).freq (s.inRange lo hi).power).1 := hx
    rw [(exclude_spec ranges _ _ hp1).2.1, List.mem_filter] at hx
    exact h1 x hx.1
  intro x hx
  have hx : x ∈ downsampleMean k ((s.inRange lo hi).excludeRange ranges).freq := hx
  obtain ⟨-, b2, b3⟩ := downsampleMean_bounds k hk ((s.inRange lo hi).excludeRange ranges).freq lo hi
  exact ⟨b2 (fun y hy => (h2 y hy).1) x hx, b3 (fun y hy => (h2 y hy).2) x hx⟩

/-! ### the constructor's window bookkeeping -/

/-- the window length the constructor uses never exceeds the data length (longer windows are clamped, with a warning) -/
theorem window_points_le (ws : Option Float) (fs : Float) (n : Nat) : numPointsPerWindow ws fs n ≤ n := by
  unfold numPointsPerWindow
  cases ws with
  | none => exact Nat.le_refl _
  | some w => simp only; split <;> omega

/-- **window_bookkeeping.**  For a window of `1 ≤ N_w ≤ N` points: `num_points_per_block = ⌊N/N_w⌋ ≥ 1` windows,
    `total_sampled_used = N_w·⌊N/N_w⌋ ≤ N` samples, fewer than `N_w` samples are left unused. -/
theorem window_bookkeeping (n npw : Nat) (h0 : 0 < npw) (hle : npw ≤ n) :
    1 ≤ (psdMeta n npw).2 ∧ (psdMeta n npw).1 = npw * (psdMeta n npw).2 ∧ (psdMeta n npw).1 ≤ n ∧
      n - (psdMeta n npw).1 < npw := by
  unfold psdMeta
  simp only
  have h1 : 0 < n / npw := Nat.div_pos hle h0
  have h2 : npw * (n / npw) ≤ n := Nat.mul_div_le n npw
  have h3 := Nat.div_add_mod n npw
  have h4 := Nat.mod_lt n h0
  refine ⟨h1, trivial, h2, ?_⟩
  omega

/-- **bin_width_constructed.**  The hypotheses of `bin_width` are established by the constructor: a freshly
    constructed spectrum with windows of `1 ≤ N_w ≤ N` points has `frequency_bin_width = fs/N_w` (whatever the
    remainder `N mod N_w`), and `fs/N_w·k₁·…` after block averaging. -/
theorem bin_width_constructed (f p : List Rat) (fs : Rat) (n npw : Nat) (h0 : 0 < npw) (hle : npw ≤ n) (k : Nat) :
    (Spec.initial f p fs n npw).binWidth = fs / (npw : Rat) ∧
      ((Spec.initial f p fs n npw).downsampledBy k).binWidth = fs / (npw : Rat) * (k : Rat) := by
  have hb := window_bookkeeping n npw h0 hle
  have := bin_width (Spec.initial f p fs n npw) npw (psdMeta n npw).2 (by omega)
    (by show (psdMeta n npw).1 = _; exact hb.2.1) rfl k
  exact ⟨this.1, by rw [this.2, this.1]; rfl⟩

example : (Spec.initial [] [] 10 26 8).binWidth = 5 / 4 := by decide +kernel

/-! ## `identify_peaks` → `_exclude_range` -/

theorem forall₂_mem_left {β γ} {R : β → γ → Prop} : ∀ {l₁ : List β} {l₂ : List γ}, List.Forall₂ R l₁ l₂ →
    ∀ a ∈ l₁, ∃ b ∈ l₂, R a b := by
  intro l₁ l₂ h
  induction h with
  | nil => intro a ha; cases ha
  | cons hab _ ih =>
    intro a ha
    rcases List.mem_cons.mp ha with rfl | ha
    · exact ⟨_, List.mem_cons_self, hab⟩
    · obtain ⟨b, hb, hr⟩ := ih a ha
      exact ⟨b, List.mem_cons_of_mem _ hb, hr⟩

theorem forall₂_mem_right {β γ} {R : β → γ → Prop} : ∀ {l₁ : List β} {l₂ : List γ}, List.Forall₂ R l₁ l₂ →
    ∀ b ∈ l₂, ∃ a ∈ l₁, R a b := by
  intro l₁ l₂ h
  induction h with
  | nil => intro a ha; cases ha
  | cons hab _ ih =>
    intro a ha
    rcases List.mem_cons.mp ha with rfl | ha
    · exact ⟨_, List.mem_cons_self, hab⟩
    · obtain ⟨b, hb, hr⟩ := ih a ha
      exact ⟨b, List.mem_cons_of_mem _ hb, hr⟩

/-- on a strictly increasing axis a bin lies in the reported frequency range `[lo, hi)` of an index range `r` exactly
    when its index lies in `r` — no slack at the upper edge: `hi` IS the next bin (or beyond the last one) -/
theorem edge_contains_iff (freq : List Rat) (hmono : freq.Pairwise (· < ·)) (df : Rat) (hdf : 0 < df)
    (r : Nat × Nat) (hr : r.1 ≤ r.2) (o : Rat × Rat) (ho : edgeOf freq df r = some o) (i : Nat) (hi : i < freq.length) :
    (o.1 ≤ freq[i] ∧ freq[i] < o.2) ↔ (r.1 ≤ i ∧ i ≤ r.2) := by
  have lt_of : ∀ a b (ha : a < freq.length) (hb : b < freq.length), a < b → freq[a] < freq[b] :=
    fun a b ha hb hab => List.pairwise_iff_getElem.mp hmono a b ha hb hab
  have le_of : ∀ a b (ha : a < freq.length) (hb : b < freq.length), a ≤ b → freq[a] ≤ freq[b] := by
    intro a b ha hb hab
    rcases Nat.eq_or_lt_of_le hab with e | e
    · subst e; exact le_refl _
    · exact le_of_lt (lt_of a b ha hb e)
  unfold edgeOf at ho
  cases ha : freq[r.1]? with
  | none => simp [ha] at ho
  | some a =>
    cases hb : freq[r.2]? with
    | none => simp [ha, hb] at ho
    | some b =>
      simp only [ha, hb, Option.some.injEq] at ho
      obtain ⟨hl1, ea⟩ := List.getElem?_eq_some_iff.mp ha
      obtain ⟨hl2, eb⟩ := List.getElem?_eq_some_iff.mp hb
      subst ho
      simp only
      unfold upperEdge
      by_cases hnext : r.2 + 1 < freq.length
      · rw [List.getElem?_eq_getElem hnext]
        simp only
        constructor
        · rintro ⟨h1, h2⟩
          constructor
          · by_contra hc
            have := lt_of i r.1 hi hl1 (by omega)
            rw [ea] at this; linarith
          · by_contra hc
            have := le_of (r.2 + 1) i hnext hi (by omega)
            linarith
        · rintro ⟨h1, h2⟩
          exact ⟨by rw [← ea]; exact le_of r.1 i hl1 hi h1, lt_of i (r.2 + 1) hi hnext (by omega)⟩
      · rw [List.getElem?_eq_none (by omega)]
        simp only
        constructor
        · rintro ⟨h1, _⟩
          constructor
          · by_contra hc
            have := lt_of i r.1 hi hl1 (by omega)
            rw [ea] at this; linarith
          · omega
        · rintro ⟨h1, h2⟩
          refine ⟨by rw [← ea]; exact le_of r.1 i hl1 hi h1, ?_⟩
          have := le_of i r.2 hi hl2 h2
          rw [eb] at this; linarith

/-- **peaks_ranges_exact.**  On a strictly increasing frequency axis the reported frequency ranges contain exactly the
    bins of the reported index ranges — with `lo ≤ f < hi` read literally, no slack at the upper edge. -/
theorem peaks_ranges_exact (freq : List Rat) (hmono : freq.Pairwise (· < ·))
    (R : List (Nat × Nat)) (hR : ∀ r ∈ R, r.1 ≤ r.2)
    (out : List (Rat × Rat)) (hout : rangesToFreq freq R = some out) (i : Nat) (hi : i < freq.length) :
    (∃ o ∈ out, o.1 ≤ freq[i] ∧ freq[i] < o.2) ↔ (∃ r ∈ R, r.1 ≤ i ∧ i ≤ r.2) := by
  by_cases hne : R = []
  · subst hne
    simp [rangesToFreq] at hout
    subst hout; simp
  have hemp : R.isEmpty = false := by cases R <;> simp_all
  unfold rangesToFreq at hout
  simp only [hemp, Bool.false_eq_true, ↓reduceIte] at hout
  cases h0 : freq[0]? with
  | none => simp [h0] at hout
  | some f0 =>
    cases h1 : freq[1]? with
    | none => simp [h0, h1] at hout
    | some f1 =>
      simp only [h0, h1] at hout
      obtain ⟨hl0, e0⟩ := List.getElem?_eq_some_iff.mp h0
      obtain ⟨hl1, e1⟩ := List.getElem?_eq_some_iff.mp h1
      have hdf : 0 < f1 - f0 := by
        have := List.pairwise_iff_getElem.mp hmono 0 1 hl0 hl1 (by omega)
        rw [e0, e1] at this; linarith
      have hall := mapM_option_some _ R out hout
      constructor
      · rintro ⟨o, ho, hin⟩
        obtain ⟨r, hr, hro⟩ := forall₂_mem_right hall o ho
        exact ⟨r, hr, (edge_contains_iff freq hmono _ hdf r (hR r hr) o hro i hi).mp hin⟩
      · rintro ⟨r, hr, hin⟩
        obtain ⟨o, ho, hro⟩ := forall₂_mem_left hall r hr
        exact ⟨o, ho, (edge_contains_iff freq hmono _ hdf r (hR r hr) o hro i hi).mpr hin⟩

theorem notExcluded_false_iff (ranges : List (Rat × Rat)) (x : Rat) :
    notExcluded ranges x = false ↔ ∃ o ∈ ranges, o.1 ≤ x ∧ x < o.2 := by
  constructor
  · intro h
    by_contra hc
    have : notExcluded ranges x = true := (notExcluded_iff ranges x).mpr (fun o ho hh => hc ⟨o, ho, hh⟩)
    rw [this] at h; cases h
  · rintro ⟨o, ho, hh⟩
    cases hn : notExcluded ranges x with
    | false => rfl
    | true => exact absurd hh ((notExcluded_iff ranges x).mp hn o ho)

/-- **peaks_range_only_baseline.**  The clause of the property, literally (no slack): every bin whose frequency lies
    in a reported range `lo ≤ f < hi` is at or above the baseline; and every bin above the cut-off lies in one. -/
theorem peaks_range_only_baseline (freq flat : List Rat) (baseline cutoff : Rat) (hbc : baseline < cutoff)
    (hlen : freq.length = flat.length) (hmono : freq.Pairwise (· < ·))
    (R : List (Nat × Nat)) (hR : identifyPeaksIdx flat baseline cutoff = some R)
    (out : List (Rat × Rat)) (hout : rangesToFreq freq R = some out) (i : Nat) (hi : i < flat.length) :
    ((∃ o ∈ out, o.1 ≤ freq[i]'(by omega) ∧ freq[i]'(by omega) < o.2) → baseline ≤ flat[i]) ∧
    (cutoff < flat[i] → ∃ o ∈ out, o.1 ≤ freq[i]'(by omega) ∧ freq[i]'(by omega) < o.2) := by
  have hRle : ∀ r ∈ R, r.1 ≤ r.2 := fun r hr => (peaks_above_baseline flat baseline cutoff hbc R hR r hr).1
  have hex := peaks_ranges_exact freq hmono R hRle out hout i (by omega)
  constructor
  · intro h
    obtain ⟨r, hr, h1, h2⟩ := hex.mp h
    obtain ⟨-, -, h3, -⟩ := peaks_above_baseline flat baseline cutoff hbc R hR r hr
    obtain ⟨_, hb⟩ := h3 i h1 h2
    exact hb
  · intro hpeak
    exact hex.mpr (peaks_cover flat baseline cutoff hbc R hR i hi hpeak)

/-- **peaks_then_exclude.**  Handing the ranges `identify_peaks` returns to `_exclude_range` (what they are for) removes
    every bin above the cut-off and ONLY bins at or above the baseline, on every strictly increasing frequency axis
    (no hypothesis on the spacing any more: the upper edge is the next bin itself). -/
theorem peaks_then_exclude (freq flat : List Rat) (baseline cutoff : Rat) (hbc : baseline < cutoff)
    (hlen : freq.length = flat.length) (hmono : freq.Pairwise (· < ·))
    (R : List (Nat × Nat)) (hR : identifyPeaksIdx flat baseline cutoff = some R)
    (out : List (Rat × Rat)) (hout : rangesToFreq freq R = some out) (i : Nat) (hi : i < flat.length) :
    (cutoff < flat[i] → notExcluded out (freq[i]'(by omega)) = false) ∧
    (notExcluded out (freq[i]'(by omega)) = false → baseline ≤ flat[i]) := by
  obtain ⟨h1, h2⟩ := peaks_range_only_baseline freq flat baseline cutoff hbc hlen hmono R hR out hout i hi
  exact ⟨fun hp => (notExcluded_false_iff out _).mpr (h2 hp), fun he => h1 ((notExcluded_false_iff out _).mp he)⟩

/-- non-vacuity: a uniform half-integer axis, one peak -/
example : identifyPeaksIdx ([0, 2, 6, 2, 0] : List Rat) 1 5 = some [(1, 3)] ∧
    rangesToFreq [0, 1/2, 1, 3/2, 2] [(1, 3)] = some [(1/2, 2)] ∧
    ([0, 1/2, 1, 3/2, 2] : List Rat).Pairwise (· < ·) ∧
    notExcluded [((1/2 : Rat), (2 : Rat))] 1 = false := by
  refine ⟨by decide +kernel, by decide +kernel, by decide +kernel, by decide +kernel⟩

/-- a non-uniform increasing axis `[0, 2, 3, 4]`: the peak at bin 1 is reported as `[2, 3)` and its exclusion removes
    bin 1 alone (the rule before the fix reported `[2, 4)` and removed bin 2 as well, see below) -/
example : (mkSpec [0, 2, 3, 4] [0, 9, 0, 0] 1).identifyPeaks [0, 9, 0, 0] 1 5 = .ok ([(1, 1)], [(2, 3)]) ∧
    ((mkSpec [0, 2, 3, 4] [0, 9, 0, 0] 1).excludeRange [(2, 3)]).freq = [0, 3, 4] ∧
    rangesToFreqUnfixed [0, 2, 3, 4] [(1, 1)] = some [(2, 4)] ∧
    ((mkSpec [0, 2, 3, 4] [0, 9, 0, 0] 1).excludeRange [(2, 4)]).freq = [0, 4] := by
  refine ⟨by decide +kernel, by decide +kernel, by decide +kernel, by decide +kernel⟩

/-- the frequency axis `rfftfreq(12, 1/7)` as exact rationals of its doubles -/
def axis12at7 : List Rat := [0, 5254199565265579/9007199254740992, 5254199565265579/4503599627370496, 7/4,
  5254199565265579/2251799813685248, 3283874728290987/1125899906842624, 7/2]

/-- **F_C10_1_witness** (finding F-C10-1, fixed; kernel-checked on the code's own doubles).  Before the fix
    `identify_peaks` reported the exclusive upper edge as `frequency[x1] + df`.  On the axis `rfftfreq(12, 1/7)` this sum
    exceeds the next bin, `f₅ + (f₁ − f₀) > f₆ = 3.5` (in exact arithmetic, and also after rounding:
    `2.916666666666667 + 0.5833333333333334 = 3.5000000000000004`), so the range reported for a peak at bin 5 alone
    contained the Nyquist bin 6 — below the baseline — and excluding the reported range removed it as well.  The
    repaired rule reports `[f₅, f₆)`, which contains bin 5 only. -/
theorem F_C10_1_witness :
    let flat : List Rat := [0, 1/2, 1/2, 1/2, 1/2, 30, 1/2]
    identifyPeaksIdx flat 1 20 = some [(5, 5)] ∧
    (∃ hi, rangesToFreqUnfixed axis12at7 [(5, 5)] = some [(3283874728290987/1125899906842624, hi)] ∧ 7/2 < hi ∧
      (excludeLists [(3283874728290987/1125899906842624, hi)] axis12at7 flat).1 = axis12at7.take 5) ∧
    rangesToFreq axis12at7 [(5, 5)] = some [(3283874728290987/1125899906842624, 7/2)] ∧
    (excludeLists [((3283874728290987/1125899906842624 : Rat), (7/2 : Rat))] axis12at7 flat).1
      = axis12at7.take 5 ++ [7/2] := by
  refine ⟨by decide +kernel,
    ⟨3283874728290987/1125899906842624 + 5254199565265579/9007199254740992, by decide +kernel, by decide +kernel,
      by decide +kernel⟩, by decide +kernel, by decide +kernel⟩

/-- the model's `excludePeaks` is `identify_peaks` followed by `_exclude_range` of the reported ranges (what the
    theorems above are about) -/
theorem excludePeaks_ok (s : Spec) (flat : List Rat) (baseline cutoff : Rat) (rs : List (Nat × Nat)) (fr : List (Rat × Rat))
    (h : s.identifyPeaks flat baseline cutoff = .ok (rs, fr)) :
    s.excludePeaks flat baseline cutoff = .ok (s.excludeRange fr) := by
  unfold Spec.excludePeaks; rw [h]

end Verif.C10
