/-
  C04 — property theorems (statements + short proofs; helper lemmas live in Lemmas/C04).
  Every theorem is about the executable model in `Verif.Model.C04`, which the correspondence check
  ties to `lumicks/pylake/channel.py` and `detail/utilities.py` on every run.
  The reduction `f : List Rat → Rat` is arbitrary in every statement (the driver instantiates it with
  mean, sum, min, max, median).
-/
import Verif.Lemmas.C04

namespace Verif.C04
open Verif.Py
open Verif.C01 (cdiv cdiv_le_iff)

/-! ## Window membership: `self[a:b]` inside the downsampling loops -/

/-- `self[a:b]` (index arithmetic of `Continuous.slice`, mask of `TimeSeries.slice`, the empty-source
    shortcut of `__getitem__`) is exactly the list of source samples with `a ≤ t < b`. -/
theorem getitem_samples (s : Src) (h : s.wf) (a b : Int) :
    (s.getitem a b).samples = s.samples.filter (inWin a b) := getitem_samples' s h a b

/-! ## `downsampled_over` -/

/-- Functional specification of `downsampled_over`: the result is, in the order of the range list,
    one sample for every range that lies inside `[start, stop]` and holds at least one source sample;
    its value is `f` of exactly the source samples in the window, its timestamp the midpoint of the
    first and last of them (`center`) or the window start (`left`) — see `windowSample`. -/
theorem over_spec (f : List Rat → Rat) (s : Src) (h : s.wf) (ranges : List (Int × Int)) (center : Bool)
    (out : List Sample) (ho : over f s ranges (some center) = .ok out) :
    ∃ st sp, s.start? = some st ∧ s.stop? = some sp ∧
      out = (ranges.filter fun r => decide (st ≤ r.1) && decide (r.2 ≤ sp)).filterMap fun r =>
        windowSample f center r (s.samples.filter (inWin r.1 r.2)) := over_ok f s h ranges center out ho

/-- Non-vacuity / reading of `windowSample`. -/
example : windowSample (fun l => l.sum) true (10, 40) [(12, 1), (20, 2), (31, 4)] = some (21, 7) := by decide +kernel
example : windowSample (fun l => l.sum) false (10, 40) [(12, 1), (20, 2), (31, 4)] = some (10, 7) := by decide +kernel
example : windowSample (fun l => l.sum) true (10, 40) [] = none := rfl

/-- Soundness: every output sample comes from a requested window inside the span; its value is `f`
    of exactly the source samples in that window (which is not empty) and its timestamp is as
    requested. -/
theorem over_sound (f : List Rat → Rat) (s : Src) (h : s.wf) (ranges : List (Int × Int)) (center : Bool)
    (out : List Sample) (ho : over f s ranges (some center) = .ok out) (x : Sample) (hx : x ∈ out) :
    ∃ st sp r W, s.start? = some st ∧ s.stop? = some sp ∧ r ∈ ranges ∧ st ≤ r.1 ∧ r.2 ≤ sp ∧
      W = s.samples.filter (inWin r.1 r.2) ∧ W ≠ [] ∧ x.2 = f (W.map (·.2)) ∧
      ∃ first last, W.head? = some first ∧ W.getLast? = some last ∧
        x.1 = if center then (first.1 + last.1) / 2 else r.1 := by
  obtain ⟨st, sp, hst, hsp, rfl⟩ := over_spec f s h ranges center out ho
  obtain ⟨r, hr, hw⟩ := List.mem_filterMap.mp hx
  rw [List.mem_filter] at hr
  simp only [Bool.and_eq_true, decide_eq_true_eq] at hr
  refine ⟨st, sp, r, _, hst, hsp, hr.1, hr.2.1, hr.2.2, rfl, ?_⟩
  unfold windowSample at hw
  split at hw
  · rename_i a b ha hb
    simp only [Option.some.injEq] at hw
    refine ⟨?_, ?_, a, b, ha, hb, ?_⟩
    · intro h0; rw [h0] at ha; simp at ha
    · rw [← hw]
    · rw [← hw]
  · cases hw

/-- Completeness: every requested window that lies inside `[start, stop]` and holds a source sample
    is represented in the output. -/
theorem over_complete (f : List Rat → Rat) (s : Src) (h : s.wf) (ranges : List (Int × Int)) (center : Bool)
    (out : List Sample) (ho : over f s ranges (some center) = .ok out) (r : Int × Int) (hr : r ∈ ranges)
    (st sp : Int) (hst : s.start? = some st) (hsp : s.stop? = some sp) (hin : st ≤ r.1 ∧ r.2 ≤ sp)
    (hne : s.samples.filter (inWin r.1 r.2) ≠ []) :
    ∃ x ∈ out, windowSample f center r (s.samples.filter (inWin r.1 r.2)) = some x := by
  obtain ⟨st', sp', hst', hsp', rfl⟩ := over_spec f s h ranges center out ho
  rw [hst] at hst'; rw [hsp] at hsp'
  cases hst'; cases hsp'
  generalize hW : s.samples.filter (inWin r.1 r.2) = W at *
  cases W with
  | nil => exact absurd rfl hne
  | cons x xs =>
    cases hl : (x :: xs).getLast? with
    | none => simp at hl
    | some y =>
      refine ⟨(if center then (x.1 + y.1) / 2 else r.1, f ((x :: xs).map (·.2))), ?_,
        by simp only [windowSample, List.head?_cons, hl]⟩
      apply List.mem_filterMap.mpr
      refine ⟨r, ?_, ?_⟩
      · rw [List.mem_filter]; simp [hr, hin.1, hin.2]
      · rw [hW]; simp only [windowSample, List.head?_cons, hl]

/-- When `downsampled_over` answers at all: a non-empty range list, a valid `where`, a source with a
    span, and the hull `[first start, last stop)` of the list overlapping that span. -/
theorem over_errors (f : List Rat → Rat) (s : Src) (ranges : List (Int × Int)) (wh : Option Bool) :
    (∃ out, over f s ranges wh = .ok out) ↔
      ∃ r0 rl st sp, ranges.head? = some r0 ∧ ranges.getLast? = some rl ∧ s.start? = some st ∧
        s.stop? = some sp ∧ ¬ (st ≥ rl.2 ∨ sp ≤ r0.1) ∧ wh ≠ none := by
  unfold over
  constructor
  · rintro ⟨out, ho⟩
    split at ho
    · rename_i r0 rl h0 hl
      split at ho
      · rename_i st sp hst hsp
        split at ho
        · cases ho
        · rename_i hno
          split at ho
          · cases ho
          · exact ⟨r0, rl, st, sp, h0, hl, hst, hsp, hno, by simp⟩
      · cases ho
    · cases ho
  · rintro ⟨r0, rl, st, sp, h0, hl, hst, hsp, hno, hw⟩
    simp only [h0, hl, hst, hsp, if_neg hno]
    cases wh with
    | none => exact absurd rfl hw
    | some c => exact ⟨_, rfl⟩

example : over (fun l => l.sum) (.ts [(0, 1), (3, 2), (5, 4)]) [(0, 4), (4, 6), (6, 9)] (some true)
    = .ok [(1, 3), (5, 4)] := by decide +kernel

/-! ### `reduce` is an arbitrary callable (deepening round D) -/

/-- `reduce` is an arbitrary callable: the answer of `downsampled_over` is the recorded windows with `reduce` applied
    to each — whatever `reduce` is, it sees exactly `overWindows`. -/
theorem over_factors (f : List Rat → Rat) (s : Src) (ranges : List (Int × Int)) (center : Bool) (out : List Sample)
    (h : over f s ranges (some center) = .ok out) :
    ∃ st sp, s.start? = some st ∧ s.stop? = some sp ∧
      out = (overWindows s st sp center ranges).map fun w => (w.1, f w.2) := by
  unfold over at h
  split at h
  · split at h
    · rename_i st sp hst hsp
      split at h
      · cases h
      · simp only [Except.ok.injEq] at h
        refine ⟨st, sp, hst, hsp, ?_⟩
        rw [← h]
        unfold overWindows
        rw [List.map_filterMap]
        congr 1
        funext r
        exact overStep_eq_W f s center r
    · cases h
  · cases h

/-- Observation behind the assumption "range lists are ordered in time" (kernel-checked test): the refusal test looks
    at the FIRST start and the LAST stop only, so a list that is not in time order is refused although its first
    window lies inside the channel. -/
theorem over_unordered_witness :
    over Reduce.sum.apply (.cont ⟨100, 10, [1, 2, 3, 4]⟩) [(110, 130), (0, 50)] (some true) = .error .runtime ∧
    over Reduce.sum.apply (.cont ⟨100, 10, [1, 2, 3, 4]⟩) [(0, 50), (110, 130)] (some true) = .ok [(115, 5)] := by
  decide +kernel

/-! ## `downsampled_by` -/

/-- `downsampled_by(k)` of a continuous channel: `⌊n/k⌋` samples; sample `i` is `f` of exactly the
    `k` source samples inside the window `[start + i·k·dt, start + (i+1)·k·dt)`, stamped with the
    midpoint of the first and last of them; the new period is `k·dt`. -/
theorem by_spec (f : List Rat → Rat) (c : Cont) (k : Nat) (hdt : 0 < c.dt) (hk : 0 < k) :
    ∃ r, downBy f (.cont c) k = .ok r ∧ r.dt = c.dt * k ∧
      r.samples = (List.range (c.data.length / k)).filterMap fun (i : Nat) =>
        let a := c.start + (i : Int) * ((k : Int) * c.dt)
        windowSample f true (a, a + (k : Int) * c.dt)
          (c.samples.filter (inWin a (a + (k : Int) * c.dt))) := by
  obtain ⟨r, hr, hd, hs⟩ := downBy_samples f c k hdt hk
  refine ⟨r, hr, hd, ?_⟩
  rw [hs]
  symm
  apply filterMap_eq_map_of
  intro i hi
  exact by_window f c k i hdt hk (List.mem_range.mp hi)

/-- Deepening round D.  The blocks of `downsampled_by(k)` are exactly ALL windows `[start + i·k·dt, start + (i+1)·k·dt)`
    of the grid that lie entirely within the span (`fullWindows`, the same list `to_all_full_windows` speaks about):
    each is represented by one sample, they are pairwise disjoint (consecutive), non-empty and inside `[start, stop]`. -/
theorem by_all_full_windows (f : List Rat → Rat) (c : Cont) (k : Nat) (hdt : 0 < c.dt) (hk : 0 < k) :
    ∃ r, downBy f (.cont c) k = .ok r ∧
      r.samples = (fullWindows c.start c.stop ((k : Int) * c.dt)).filterMap (fun w =>
        windowSample f true w (c.samples.filter (inWin w.1 w.2))) ∧
      (fullWindows c.start c.stop ((k : Int) * c.dt)).Pairwise (fun a b => a.2 ≤ b.1) ∧
      (∀ w ∈ fullWindows c.start c.stop ((k : Int) * c.dt), w.1 < w.2 ∧ c.start ≤ w.1 ∧ w.2 ≤ c.stop) ∧
      ∀ i : Nat, c.start + ((i : Int) + 1) * ((k : Int) * c.dt) ≤ c.stop →
        (c.start + (i : Int) * ((k : Int) * c.dt), c.start + ((i : Int) + 1) * ((k : Int) * c.dt))
          ∈ fullWindows c.start c.stop ((k : Int) * c.dt) := by
  have hs : 0 < (k : Int) * c.dt := Int.mul_pos (by exact_mod_cast hk) hdt
  obtain ⟨r, hr, _, hsm⟩ := by_spec f c k hdt hk
  refine ⟨r, hr, ?_, ?_, ?_, ?_⟩
  · rw [hsm, by_fullWindows c k hdt]
    unfold blockWins
    rw [List.filterMap_map]
    congr 1
    funext i
    simp only [Function.comp]
    have e : c.start + (i : Int) * ((k : Int) * c.dt) + (k : Int) * c.dt
        = c.start + ((i : Int) + 1) * ((k : Int) * c.dt) := by ring
    rw [e]
  · unfold fullWindows blockWins
    rw [List.pairwise_map]
    refine List.pairwise_lt_range.imp ?_
    intro i j hij
    have : ((i : Int) + 1) * ((k : Int) * c.dt) ≤ (j : Int) * ((k : Int) * c.dt) :=
      Int.mul_le_mul_of_nonneg_right (by omega) (Int.le_of_lt hs)
    simp only; linarith
  · intro w hw
    obtain ⟨i, rfl, hi⟩ := (mem_fullWindows _ _ _ hs w).mp hw
    have h1 : 0 ≤ (i : Int) * ((k : Int) * c.dt) := Int.mul_nonneg (by omega) (Int.le_of_lt hs)
    refine ⟨?_, ?_, hi⟩ <;> simp only <;> linarith
  · intro i hi
    exact (mem_fullWindows _ _ _ hs _).mpr ⟨i, rfl, hi⟩

example : fullWindows 100 170 30 = [(100, 130), (130, 160)] := by decide

theorem by_ts_refused (f : List Rat → Rat) (l : List Sample) (k : Nat) :
    downBy f (.ts l) k = .error .notImpl := rfl

example : (downBy (fun l => l.sum) (.cont ⟨100, 10, [1, 2, 3, 4, 5, 6, 7]⟩) 3).toOption.map (·.samples)
    = some [(110, 6), (140, 15)] := by decide +kernel

/-! ### composition of two `downsampled_by` (deepening round D) -/

/-- Composition: `downsampled_by(k₁)` followed by `downsampled_by(k₂)` has the SAME timestamps and period as
    `downsampled_by(k₁·k₂)` (the two half-period shifts `dt(k₁-1)//2` and `dt·k₁(k₂-1)//2` never both round), and
    its sample `i` is `g` of the `k₂` values `f(block)` of the `k₁`-blocks of the `i`-th `k₁·k₂`-block. -/
theorem by_by (f g h : List Rat → Rat) (c : Cont) (k1 k2 : Nat) (hk1 : 0 < k1) (hk2 : 0 < k2) :
    ∃ r1 r2 r12, downBy f (.cont c) k1 = .ok r1 ∧ downBy g (.cont r1) k2 = .ok r2 ∧
      downBy h (.cont c) (k1 * k2) = .ok r12 ∧
      r2.dt = r12.dt ∧ r2.timestamps = r12.timestamps ∧
      r2.data = (blocks (k1 * k2) c.data).map (fun B => g ((blocks k1 B).map f)) ∧
      r12.data = (blocks (k1 * k2) c.data).map h := by
  obtain ⟨r1, r2, r12, h1, h2, h12, hst, hdt, hd2, hd12⟩ := by_by' f g h c k1 k2 hk1 hk2
  refine ⟨r1, r2, r12, h1, h2, h12, hdt, ?_, hd2, hd12⟩
  have hl : r2.data.length = r12.data.length := by rw [hd2, hd12]; simp
  unfold Cont.timestamps Cont.stop
  rw [hst, hdt, hl]

/-- For `reduce = np.sum` the composition IS `downsampled_by(k₁·k₂)`: same samples, same timestamps, same period. -/
theorem by_by_sum (c : Cont) (k1 k2 : Nat) (hk1 : 0 < k1) (hk2 : 0 < k2) :
    ∃ r1 r2, downBy Reduce.sum.apply (.cont c) k1 = .ok r1 ∧ downBy Reduce.sum.apply (.cont r1) k2 = .ok r2 ∧
      downBy Reduce.sum.apply (.cont c) (k1 * k2) = .ok r2 := by
  obtain ⟨r1, r2, r12, h1, h2, h12, hst, hdt, hd2, hd12⟩ :=
    by_by' Reduce.sum.apply Reduce.sum.apply Reduce.sum.apply c k1 k2 hk1 hk2
  refine ⟨r1, r2, h1, h2, ?_⟩
  rw [h12]
  congr 1
  have hd : r2.data = r12.data := by
    rw [hd2, hd12]
    apply List.map_congr_left
    intro B hB
    have hlen := mem_blocks_length _ _ _ hB
    exact sum_blocks k1 hk1 k2 B hlen
  cases r2; cases r12
  simp only at hst hdt hd
  rw [hst, hdt, hd]

example : (downBy Reduce.sum.apply (.cont ⟨100, 3, [1, 2, 3, 4, 5, 6, 7, 8, 9, 10, 11, 12, 13]⟩) 6).toOption
    = some ⟨107, 18, [21, 57]⟩ := by decide +kernel

/-- For `reduce ∈ {sum, mean, min, max}` (reductions compatible with equal blocks, `BlockCompat`) two successive
    `downsampled_by` ARE one: `downsampled_by(k₁).downsampled_by(k₂) = downsampled_by(k₁·k₂)` — samples, timestamps,
    period.  (Not for the median: the median of block medians is not the median; the tie exercises that case and the
    oracle judges it stage by stage.) -/
theorem by_by_compat (red : Reduce) (hred : red ≠ .median) (c : Cont) (k1 k2 : Nat) (hk1 : 0 < k1) (hk2 : 0 < k2) :
    ∃ r1 r2, downBy red.apply (.cont c) k1 = .ok r1 ∧ downBy red.apply (.cont r1) k2 = .ok r2 ∧
      downBy red.apply (.cont c) (k1 * k2) = .ok r2 := by
  have hc : BlockCompat red.apply := by
    cases red with
    | mean => exact compat_mean
    | sum => exact compat_sum
    | min => exact compat_min
    | max => exact compat_max
    | median => exact absurd rfl hred
  exact by_by_compat' red.apply hc c k1 k2 hk1 hk2

example : (downBy Reduce.max.apply (.cont ⟨100, 3, [1, 9, 3, 4, 5, 6, 7, 8, 2, 10, 11, 12, 13]⟩) 6).toOption
    = some ⟨107, 18, [9, 12]⟩ := by decide +kernel

/-- Long channels are handed to the model as a rule (`sample i = v i`, `contOf`); the model then answers
    a window of the downsampled channel from the rule alone.  That window IS the slice `[i0 : i0 + cnt]`
    of the full answer of `downsampled_by(k)` (to which `by_spec` applies), and the reported number of
    samples `n / k` is the length of the full answer. -/
theorem by_window_spec (f : List Rat → Rat) (start dt : Int) (n : Nat) (v : Nat → Rat) (k i0 cnt : Nat)
    (hdt : 0 < dt) (hk : 0 < k) :
    ∃ r, downBy f (.cont (contOf start dt n v)) k = .ok r ∧ r.dt = dt * k ∧ r.samples.length = n / k ∧
      byWindow f start dt n v k i0 cnt = (r.samples.drop i0).take cnt :=
  byWindow_eq f start dt n v k i0 cnt hdt hk

/-- Non-vacuity: 23 samples `v i = i`, factor 5, window of two samples from index 2 on / beyond the end. -/
example : byWindow Reduce.mean.apply 100 10 23 (fun i => (i : Rat)) 5 2 2 = [(220, 12), (270, 17)] := by decide +kernel
example : byWindow Reduce.mean.apply 100 10 23 (fun i => (i : Rat)) 5 3 4 = [(270, 17)] := by decide +kernel
example : (Rule.mk 3 5 4 7 2 8).val 7 = 3 / 8 := by decide +kernel
example : byWindow Reduce.sum.apply 100 10 23 (Rule.mk 3 5 4 7 2 8).val 5 2 2 = [(220, 1 / 2), (270, 1 / 2)] := by
  decide +kernel

/-! ## `downsampled_to` (as the code is: edges `np.arange(start, stop, step)`, finding F3) -/

/-- Once the target step is settled (`targetStep`: upsampling guard, `safe`/`ceil`/`force`),
    `downsampled_to` is `downsampled_over` on the consecutive pairs of the edges
    `np.arange(start, stop, step)`. -/
theorem to_is_over (f : List Rat → Rat) (s : Src) (target step st sp : Int) (m : Method) (wh : Option Bool)
    (ht : targetStep s.timesteps target m = .ok step) (h0 : step ≠ 0)
    (hst : s.start? = some st) (hsp : s.stop? = some sp) :
    downTo f s target (some m) wh = over f s (pairs (arange st sp step)) wh :=
  to_is_over' f s target step st sp m wh ht h0 hst hsp

/-- The windows `downsampled_to` uses: `[st + i·step, st + (i+1)·step)` for `i < ⌈(sp-st)/step⌉ - 1`. -/
theorem to_windows (st sp step : Int) :
    pairs (arange st sp step) = blockWins st step (((sp - st + step - 1) / step).toNat - 1) :=
  pairs_arange_blockWins st sp step

/-- They are pairwise disjoint (consecutive), non-empty, and lie inside the span — in fact they end
    strictly before `stop`, which is the defect F3 when `stop - start` is a multiple of the step. -/
theorem to_windows_disjoint (st sp step : Int) (hs : 0 < step) :
    (pairs (arange st sp step)).Pairwise (fun a b => a.2 ≤ b.1) ∧
      ∀ r ∈ pairs (arange st sp step), r.1 < r.2 ∧ st ≤ r.1 ∧ r.2 < sp := by
  rw [to_windows]
  constructor
  · unfold blockWins
    rw [List.pairwise_map]
    refine List.pairwise_lt_range.imp ?_
    intro i j hij
    have : ((i : Int) + 1) * step ≤ (j : Int) * step :=
      Int.mul_le_mul_of_nonneg_right (by omega) (Int.le_of_lt hs)
    simp only; linarith
  · intro r hr
    obtain ⟨i, hi, rfl⟩ := (mem_blockWins _ _ _ _).mp hr
    have h1 : 0 ≤ (i : Int) * step := Int.mul_nonneg (by omega) (Int.le_of_lt hs)
    have h2 : ¬ (C01.cdiv (sp - st) step ≤ (i : Int) + 1) := by
      unfold C01.cdiv; omega
    rw [C01.cdiv_le_iff hs] at h2
    refine ⟨?_, ?_, ?_⟩ <;> simp only <;> linarith

/-- If `stop - start` is NOT a multiple of the step, every window `[st + i·step, st + (i+1)·step)`
    lying inside `[st, sp)` is used (and no other). -/
theorem to_all_full_windows (st sp step : Int) (hs : 0 < step) (h : (sp - st) % step ≠ 0) :
    pairs (arange st sp step) = fullWindows st sp step ∧
      ∀ i : Nat, st + ((i : Int) + 1) * step ≤ sp →
        (st + (i : Int) * step, st + ((i : Int) + 1) * step) ∈ pairs (arange st sp step) := by
  refine ⟨pairs_arange_nonmult st sp step hs h, ?_⟩
  intro i hi
  rw [pairs_arange_nonmult st sp step hs h, mem_fullWindows _ _ _ hs]
  exact ⟨i, rfl, hi⟩

/-- Exact characterisation of F3: if `stop - start` IS a multiple of the step, the windows used are all
    the full windows except the last one, `[sp - step, sp)`, which lies inside the span and is dropped. -/
theorem to_missing_last (st sp step : Int) (hs : 0 < step) (h : (sp - st) % step = 0) :
    pairs (arange st sp step) = (fullWindows st sp step).dropLast ∧
      (st < sp → (sp - step, sp) ∈ fullWindows st sp step ∧ (sp - step, sp) ∉ pairs (arange st sp step)) := by
  refine ⟨pairs_arange_mult st sp step hs h, ?_⟩
  intro hlt
  constructor
  · rw [mem_fullWindows _ _ _ hs]
    have hq : 1 ≤ (sp - st) / step := by
      have := Int.emod_add_mul_ediv (sp - st) step
      rw [h] at this
      by_cases hq : 1 ≤ (sp - st) / step
      · exact hq
      · have : (sp - st) / step ≤ 0 := by omega
        have := Int.mul_le_mul_of_nonneg_left this (Int.le_of_lt hs)
        omega
    have hD : sp - st = ((sp - st) / step) * step := by
      have := Int.emod_add_mul_ediv (sp - st) step
      rw [h, Int.mul_comm] at this; omega
    refine ⟨((sp - st) / step - 1).toNat, ?_, ?_⟩
    · have e : (((sp - st) / step - 1).toNat : Int) = (sp - st) / step - 1 := Int.toNat_of_nonneg (by omega)
      rw [e]
      generalize (sp - st) / step = q at *
      have : (q - 1) * step = q * step - step := by ring
      have : (q - 1 + 1) * step = q * step := by ring
      ext <;> simp only <;> linarith
    · have e : (((sp - st) / step - 1).toNat : Int) = (sp - st) / step - 1 := Int.toNat_of_nonneg (by omega)
      rw [e]
      generalize (sp - st) / step = q at *
      have : (q - 1 + 1) * step = q * step := by ring
      linarith
  · intro hmem
    have := ((to_windows_disjoint st sp step hs).2 _ hmem).2.2
    simp only at this; omega

/-- (i) Downsampling a continuous channel to the rate `f_s/k` gives the same samples as downsampling it
    by the integer factor `k` — whenever the number of samples is NOT a multiple of `k`
    (any `method`, `where = "center"`). -/
theorem to_eq_by (f : List Rat → Rat) (c : Cont) (k : Nat) (m : Method) (hdt : 0 < c.dt) (hk : 0 < k)
    (hn : k ≤ c.data.length) (hnm : c.data.length % k ≠ 0) :
    ∃ r, downBy f (.cont c) k = .ok r ∧
      downTo f (.cont c) ((k : Int) * c.dt) (some m) (some true) = .ok r.samples := by
  obtain ⟨r, hr, _, hs⟩ := downBy_samples f c k hdt hk
  exact ⟨r, hr, by rw [hs]; exact to_cont_nonmult f c k m hdt hk hn hnm⟩

/-- (ii) When the number of samples IS a multiple of `k` (at least two blocks), `downsampled_to`
    returns the samples of `downsampled_by(k)` WITHOUT the last block (finding F3). -/
theorem to_multiple_eq_by_dropLast (f : List Rat → Rat) (c : Cont) (k : Nat) (m : Method) (hdt : 0 < c.dt)
    (hk : 0 < k) (hn : 2 * k ≤ c.data.length) (hnm : c.data.length % k = 0) :
    ∃ r, downBy f (.cont c) k = .ok r ∧
      downTo f (.cont c) ((k : Int) * c.dt) (some m) (some true) = .ok r.samples.dropLast := by
  obtain ⟨r, hr, _, hs⟩ := downBy_samples f c k hdt hk
  exact ⟨r, hr, by rw [hs, map_range_dropLast]; exact to_cont_mult f c k m hdt hk hn hnm⟩

/-- With at most one block (`n ≤ k`, including exactly one complete block `n = k`) the code builds an
    empty range list and `downsampled_over` refuses it with `ValueError`. -/
theorem to_single_block_refused (f : List Rat → Rat) (c : Cont) (k : Nat) (m : Method) (wh : Option Bool)
    (hdt : 0 < c.dt) (hk : 0 < k) (hn : c.data.length ≤ k) :
    downTo f (.cont c) ((k : Int) * c.dt) (some m) wh = .error .value :=
  to_cont_short f c k m wh hdt hk hn

/-- The window the model answers for `downsampled_to` (step `k·dt`, `where="center"`, any method) of a
    long channel given by a rule is the slice `[i0 : i0 + cnt]` of the full answer of `downTo`, which
    has `toCount n k` samples (`n / k`, one fewer when `n` is a multiple of `k`: finding F3). -/
theorem to_window_spec (f : List Rat → Rat) (start dt : Int) (n : Nat) (v : Nat → Rat) (k i0 cnt : Nat)
    (m : Method) (hdt : 0 < dt) (hk : 0 < k) (hn : k < n) :
    ∃ out, downTo f (.cont (contOf start dt n v)) ((k : Int) * dt) (some m) (some true) = .ok out ∧
      out.length = toCount n k ∧ toWindow f start dt n v k i0 cnt = (out.drop i0).take cnt :=
  toWindow_eq f start dt n v k i0 cnt m hdt hk hn

example : toWindow Reduce.mean.apply 100 10 23 (fun i => (i : Rat)) 5 2 5 = [(220, 12), (270, 17)] := by decide +kernel
example : toWindow Reduce.mean.apply 100 10 20 (fun i => (i : Rat)) 5 1 5 = [(170, 7), (220, 12)] := by decide +kernel

/-- Non-vacuity of `to_eq_by` (23 samples, factor 5) and of `to_multiple_eq_by_dropLast`. -/
example : downTo Reduce.mean.apply (.cont ⟨100, 10, (List.range 23).map fun (i : Nat) => (i : Rat)⟩) 50 (some .safe) (some true)
    = .ok [(120, 2), (170, 7), (220, 12), (270, 17)] := by decide +kernel
example : (downBy Reduce.mean.apply (.cont ⟨100, 10, (List.range 23).map fun (i : Nat) => (i : Rat)⟩) 5).toOption.map (·.samples)
    = some [(120, 2), (170, 7), (220, 12), (270, 17)] := by decide +kernel

/-- Finding F3, kernel-checked: `Slice(Continuous(arange(20.), 100, 10))` downsampled to 1e9/50 Hz has
    three samples, downsampled by 5 it has four; the block `[250, 300)` (mean 17) is missing. -/
theorem F3_witness :
    downTo Reduce.mean.apply (.cont ⟨100, 10, (List.range 20).map fun (i : Nat) => (i : Rat)⟩) 50 (some .safe) (some true)
        = .ok [(120, 2), (170, 7), (220, 12)] ∧
      (downBy Reduce.mean.apply (.cont ⟨100, 10, (List.range 20).map fun (i : Nat) => (i : Rat)⟩) 5).toOption.map (·.samples)
        = some [(120, 2), (170, 7), (220, 12), (270, 17)] ∧
      (250, 300) ∈ fullWindows 100 300 50 ∧ (250, 300) ∉ pairs (arange 100 300 50) := by
  decide +kernel

/-! ## the step `downsampled_to` uses, and when it answers (deepening round D) -/

/-- `method="force"`: the requested step is used as it is; the only refusal is upsampling (a source period
    longer than the requested one). -/
theorem to_step_force (steps : List Int) (target step : Int) :
    targetStep steps target .force = .ok step ↔ (∀ d ∈ steps, d ≤ target) ∧ step = target := by
  unfold targetStep
  by_cases h : steps.any (fun d => decide (target < d)) = true
  · rw [if_pos h]
    simp only [List.any_eq_true, decide_eq_true_eq] at h
    obtain ⟨d, hd, hlt⟩ := h
    constructor
    · intro h'; cases h'
    · rintro ⟨hall, _⟩; have := hall d hd; omega
  · rw [if_neg h]
    simp only [List.any_eq_true, decide_eq_true_eq, not_exists, not_and, Int.not_lt] at h
    constructor
    · intro h'; cases h'; exact ⟨h, rfl⟩
    · rintro ⟨_, rfl⟩; rfl

/-- `method="safe"` / `"ceil"`: a single source period `d ≤ target` is required; `safe` answers only for an exact
    multiple, `ceil` rounds the step DOWN to the nearest multiple of `d` (the rate up).  (`d = 0`: numpy's integer
    modulo by zero is 0.) -/
theorem to_step_safe_ceil (steps : List Int) (target step : Int) (m : Method) (hm : m ≠ .force) :
    targetStep steps target m = .ok step ↔
      ∃ d, steps = [d] ∧ d ≤ target ∧
        ((d = 0 ∨ target % d = 0) ∧ step = target ∨
         (d ≠ 0 ∧ target % d ≠ 0 ∧ m = .ceil ∧ step = target - target % d)) := by
  unfold targetStep
  by_cases h : steps.any (fun d => decide (target < d)) = true
  · rw [if_pos h]
    simp only [List.any_eq_true, decide_eq_true_eq] at h
    obtain ⟨d, hd, hlt⟩ := h
    constructor
    · intro h'; cases h'
    · rintro ⟨d', rfl, hle, _⟩
      simp only [List.mem_singleton] at hd
      subst hd; omega
  · rw [if_neg h]
    simp only [List.any_eq_true, decide_eq_true_eq, not_exists, not_and, Int.not_lt] at h
    cases m with
    | force => exact absurd rfl hm
    | safe =>
      match steps, h with
      | [], _ => simp
      | [d], h =>
        have hd := h d (by simp)
        by_cases h0 : d = 0
        · subst h0; simp; constructor <;> (intro h'; omega)
        · by_cases hr : target % d = 0
          · simp [h0, hr, hd]; constructor <;> (intro h'; omega)
          · simp [h0, hr, hd]
      | d :: e :: r, _ => simp
    | ceil =>
      match steps, h with
      | [], _ => simp
      | [d], h =>
        have hd := h d (by simp)
        by_cases h0 : d = 0
        · subst h0; simp; constructor <;> (intro h'; omega)
        · by_cases hr : target % d = 0
          · simp [h0, hr, hd]; constructor <;> (intro h'; omega)
          · simp [h0, hr, hd]; constructor <;> (intro h'; omega)
      | d :: e :: r, _ => simp

/-- What `ceil` returns is the LARGEST multiple of the source period not exceeding the requested step, and it is
    still at least one source period (no upsampling after rounding). -/
theorem to_step_ceil_largest_multiple (d target step : Int) (hd : 0 < d)
    (h : targetStep [d] target .ceil = .ok step) :
    step % d = 0 ∧ step ≤ target ∧ target < step + d ∧ d ≤ step := by
  obtain ⟨d', hd', hle, hc⟩ := (to_step_safe_ceil [d] target step .ceil (by decide)).mp h
  simp only [List.cons.injEq, and_true] at hd'
  subst hd'
  have hnn := Int.emod_nonneg target (by omega : d ≠ 0)
  have hlt := Int.emod_lt_of_pos target hd
  have hdm := Int.emod_add_mul_ediv target d
  have hq : 1 ≤ target / d := by
    by_cases hq : 1 ≤ target / d
    · exact hq
    · have : target / d ≤ 0 := by omega
      have := Int.mul_le_mul_of_nonneg_left this (Int.le_of_lt hd)
      omega
  have hq' : d * 1 ≤ d * (target / d) := Int.mul_le_mul_of_nonneg_left hq (Int.le_of_lt hd)
  rcases hc with ⟨h0, hs⟩ | ⟨_, _, _, rfl⟩
  · subst hs
    rcases h0 with h0 | h0
    · omega
    · refine ⟨h0, by omega, by omega, by omega⟩
  · refine ⟨?_, by omega, by omega, by omega⟩
    have : target - target % d = d * (target / d) := by omega
    rw [this]; exact Int.mul_emod_right _ _

example : targetStep [10] 47 .ceil = .ok 40 ∧ targetStep [10] 47 .safe = .error .value ∧
    targetStep [10] 47 .force = .ok 47 ∧ targetStep [10] 9 .force = .error .value ∧
    targetStep [10, 20] 40 .safe = .error .value ∧ targetStep [10, 20] 40 .force = .ok 40 := by decide

/-- When `downsampled_to` answers at all (settled positive step): exactly when `where` is valid and the span is
    LONGER than one step.  A span of exactly one step — one complete window — is refused (`ValueError`); that is
    finding F3 at its smallest. -/
theorem to_answers_iff (f : List Rat → Rat) (s : Src) (target step st sp : Int) (m : Method) (wh : Option Bool)
    (ht : targetStep s.timesteps target m = .ok step) (hs : 0 < step)
    (hst : s.start? = some st) (hsp : s.stop? = some sp) :
    (∃ out, downTo f s target (some m) wh = .ok out) ↔ wh ≠ none ∧ step < sp - st := by
  rw [to_is_over f s target step st sp m wh ht (by omega) hst hsp, over_errors]
  have hin := (to_windows_disjoint st sp step hs).2
  constructor
  · rintro ⟨r0, rl, st', sp', h0, hl, hst', hsp', hno, hw⟩
    refine ⟨hw, ?_⟩
    have hm : r0 ∈ pairs (arange st sp step) := List.mem_of_mem_head? h0
    have h2 := (hin r0 hm).2.2
    rw [to_windows] at hm
    obtain ⟨i, _, rfl⟩ := (mem_blockWins _ _ _ _).mp hm
    have h1 : 0 ≤ (i : Int) * step := Int.mul_nonneg (by omega) (Int.le_of_lt hs)
    simp only at h2
    linarith
  · rintro ⟨hw, hlt⟩
    have hmem : (st, st + step) ∈ pairs (arange st sp step) := by
      rw [to_windows, mem_blockWins]
      refine ⟨0, ?_, by simp⟩
      have h2 : ¬ (cdiv (sp - st) step ≤ 1) := by
        rw [cdiv_le_iff hs]; omega
      unfold cdiv at h2
      omega
    have hne : pairs (arange st sp step) ≠ [] := List.ne_nil_of_mem hmem
    obtain ⟨r0, h0⟩ : ∃ r0, (pairs (arange st sp step)).head? = some r0 := by
      cases hp : pairs (arange st sp step) with
      | nil => exact absurd hp hne
      | cons a t => exact ⟨a, rfl⟩
    obtain ⟨rl, hl⟩ : ∃ rl, (pairs (arange st sp step)).getLast? = some rl :=
      ⟨_, List.getLast?_eq_some_getLast hne⟩
    refine ⟨r0, rl, st, sp, h0, hl, hst, hsp, ?_, hw⟩
    have a0 := hin r0 (List.mem_of_mem_head? h0)
    have al := hin rl (List.mem_of_getLast? hl)
    omega


/-- Non-vacuity of `to_answers_iff`: five samples of period 10 and a step of 50 (exactly one complete window) are
    refused; six samples are answered. -/
example : targetStep (Src.cont ⟨100, 10, [1, 2, 3, 4, 5]⟩).timesteps 50 .safe = .ok 50 ∧
    downTo Reduce.mean.apply (.cont ⟨100, 10, [1, 2, 3, 4, 5]⟩) 50 (some .safe) (some true) = .error .value ∧
    downTo Reduce.mean.apply (.cont ⟨100, 10, [1, 2, 3, 4, 5, 6]⟩) 50 (some .safe) (some true) = .ok [(120, 3)] := by
  decide +kernel

/-- The Hz → ns conversion (`targetOfFreq`, executed on doubles: `int(1e9 / frequency)`) is the only thing between
    `downsampled_to(frequency)` and the integer-step function all theorems of this section speak about; its
    refusals (`ZeroDivisionError`, `ValueError` for nan, `OverflowError`) are passed on; an unknown method is
    refused before the conversion. -/
theorem to_freq_is_to (f : List Rat → Rat) (s : Src) (fq : Float) (m : Method) (wh : Option Bool) :
    (∀ t, targetOfFreq fq = some (.ok t) → downToFreq f s fq (some m) wh = some (downTo f s t (some m) wh)) ∧
    (∀ e, targetOfFreq fq = some (.error e) → downToFreq f s fq (some m) wh = some (.error e)) ∧
    downToFreq f s fq none wh = some (.error .value) := by
  refine ⟨?_, ?_, rfl⟩
  · intro t h; simp only [downToFreq, h]
  · intro e h; simp only [downToFreq, h]

/-! ### the Hz → ns conversion, exactly (deepening round D) -/

example : targetOfFreqQ 15625 = some (.ok 64000) := by decide +kernel
example : targetOfFreqQ (1000000000 / 3) = some (.ok 3) := by decide +kernel
-- 1e9 / 0.3 = 3333333333.3333335 (double)
example : truncRoundDouble 37 10 = 3 := by decide +kernel

/-- An integer below 2^53 is a double: rounding leaves it alone. -/
theorem truncRoundDouble_nat (s : Nat) (h1 : 1 ≤ s) (h2 : s < 2 ^ 53) : truncRoundDouble s 1 = s := by
  unfold truncRoundDouble
  rw [if_neg (by omega)]
  simp only [Nat.div_one]
  have hL : Nat.log2 (2 * s) ≤ 53 := by
    have := (Nat.log2_lt (n := 2 * s) (k := 54) (by omega)).mpr (by omega)
    omega
  rw [if_pos hL]
  unfold roundHalfEven
  simp only [Nat.div_one, Nat.mod_one, Nat.mul_zero]
  rw [if_pos (by omega)]
  exact Nat.mul_div_cancel _ (Nat.two_pow_pos _)

/-- Unit conversion, exact case: when `1e9 / frequency` is an integer number of nanoseconds below 2^53 (the frequency
    is exactly `1e9 / s` Hz), `int(1e9 / frequency)` is that integer — no rounding, no truncation loss. -/
theorem step_of_exact_freq (fq : Rat) (s : Nat) (h1 : 1 ≤ s) (h2 : s < 2 ^ 53) (hq : fq = 1000000000 / (s : Rat)) :
    targetOfFreqQ fq = some (.ok (s : Int)) := by
  have hs : (0 : Rat) < (s : Rat) := by exact_mod_cast h1
  have hpos : 0 < fq := by rw [hq]; exact div_pos (by norm_num) hs
  have hquot : (1000000000 : Rat) / fq = (s : Rat) := by
    rw [hq, div_div_eq_mul_div]; exact mul_div_cancel_left₀ _ (by norm_num)
  unfold targetOfFreqQ
  rw [if_neg (ne_of_gt hpos)]
  simp only [if_neg (not_lt.mpr (le_of_lt hpos)), hquot]
  have hlt : ¬ ((s : Rat) ≥ 4611686018427387904) := by
    have : (s : Rat) < 2 ^ 53 := by exact_mod_cast h2
    norm_num at this ⊢
    linarith
  rw [if_neg hlt]
  have hn : ((s : Rat)).num.toNat = s := by simp
  have hd : ((s : Rat)).den = 1 := by simp
  rw [hn, hd, truncRoundDouble_nat s h1 h2]

/-- The property's "in particular", at the level of the FREQUENCY argument: when the frequency handed to
    `downsampled_to` is exactly `f_s / k = 1e9 / (k·dt)` Hz (period `k·dt` below 2^53 ns) and the channel does not hold a
    whole number of blocks, `downsampled_to(frequency)` returns the samples of `downsampled_by(k)` (any method,
    `where="center"`); for a whole number of blocks see `to_multiple_eq_by_dropLast` (finding F3). -/
theorem to_freq_eq_by (f : List Rat → Rat) (c : Cont) (k : Nat) (m : Method) (fq : Rat) (hdt : 0 < c.dt) (hk : 0 < k)
    (hn : k ≤ c.data.length) (hnm : c.data.length % k ≠ 0) (hs : (k : Int) * c.dt < 2 ^ 53)
    (hfq : fq = 1000000000 / (((k : Int) * c.dt : Int) : Rat)) :
    ∃ r, downBy f (.cont c) k = .ok r ∧
      downToFreqQ f (.cont c) fq (some m) (some true) = some (.ok r.samples) := by
  obtain ⟨r, hr, hto⟩ := to_eq_by f c k m hdt hk hn hnm
  refine ⟨r, hr, ?_⟩
  have hpos : 0 < (k : Int) * c.dt := Int.mul_pos (by exact_mod_cast hk) hdt
  have hcast : ((((k : Int) * c.dt).toNat : Nat) : Int) = (k : Int) * c.dt := Int.toNat_of_nonneg (by omega)
  have hr' : ((((k : Int) * c.dt).toNat : Nat) : Rat) = (((k : Int) * c.dt : Int) : Rat) := by
    rw [← Int.cast_natCast (R := Rat) ((k : Int) * c.dt).toNat, hcast]
  have hstep := step_of_exact_freq fq ((k : Int) * c.dt).toNat (by omega) (by omega)
    (by rw [hfq, hr'])
  unfold downToFreqQ
  simp only [hstep, hcast]
  rw [hto]

/-- Non-vacuity: 23 samples at 78.125 kHz (`dt = 12800` ns) downsampled to 15625 Hz = `f_s / 5`. -/
example : downToFreqQ Reduce.mean.apply (.cont ⟨0, 12800, (List.range 23).map fun (i : Nat) => (i : Rat)⟩) 15625 (some .safe) (some true)
    = some (.ok [(25600, 2), (89600, 7), (153600, 12), (217600, 17)]) := by decide +kernel

/-! ## `downsampled_like` (`pw = true` is the code as it is since the repair of F9 in /repo d1dbc24; `pw = false` is the
    code before that repair, kept with its theorems and the F9 witness as the record of the finding) -/

/-- For a reference with strictly increasing timestamps the two returned channels carry identical
    timestamps, and the cropped reference is a contiguous run `reference[i:j]` of the reference. -/
theorem like_same_timestamps (pw : Bool) (f : List Rat → Rat) (s ref : Src) (ds refc : List Sample)
    (h : like pw f s ref = .ok (ds, refc)) (hs : (ref.timestamps).Pairwise (· < ·)) :
    ds.map (·.1) = refc.map (·.1) ∧ ∃ r i j, ref = .ts r ∧ refc = (r.take j).drop i :=
  like_same' pw f s ref ds refc h hs

/-- Every returned sample is `f` of exactly the source samples inside its window `[T - δ, T)`, where
    `(T, δ)` runs through the kept slice of the reference timestamps zipped with the window lengths
    `likeDeltas` (closed form of the repair: `repair_spec`). -/
theorem like_value_spec (pw : Bool) (f : List Rat → Rat) (c : Cont) (hdt : 0 < c.dt) (ref : Src)
    (ds refc : List Sample) (h : like pw f (.cont c) ref = .ok (ds, refc)) :
    ds = (likeKept pw c ref.timestamps).map (fun (p : Int × Int) =>
        (p.1, f ((c.samples.filter (inWin (p.1 - p.2) p.1)).map (·.2)))) ∧
      ∃ i j : Nat, likeKept pw c ref.timestamps =
        ((ref.timestamps.zip (likeDeltas ref.timestamps)).take j).drop i := by
  refine ⟨like_values' pw f c hdt ref ds refc h, ?_⟩
  obtain ⟨i, j, hk, _⟩ := likeKept_slice pw c ref.timestamps
  exact ⟨i, j, hk⟩

/-- Which reference samples were kept by the code BEFORE the repair of F9 (`pw = false`): for a sorted reference exactly those with
    `T - δ₀ ≥ start` and `T < stop`, δ₀ being the FIRST window length — not the sample's own window
    length, which is finding F9. -/
theorem like_kept_spec (c : Cont) (T : List Int) (hs : T.Pairwise (· < ·)) :
    likeKept false c T = (T.zip (likeDeltas T)).filter fun p =>
      decide (c.start ≤ p.1 - (likeDeltas T).headD 0) && decide (p.1 < c.stop) :=
  likeKept_spec' c T hs

/-- Windows lie within the source span — for the code before the repair of F9 (`pw = false`) this holds whenever no window is longer
    than the first one (constant reference period, or a frame rate that only goes up); the complementary
    class is finding F9. -/
theorem like_within_span (c : Cont) (T : List Int) (hs : T.Pairwise (· < ·))
    (hδ : ∀ p ∈ T.zip (likeDeltas T), p.2 ≤ (likeDeltas T).headD 0) :
    ∀ p ∈ likeKept false c T, c.start ≤ p.1 - p.2 ∧ p.1 < c.stop :=
  like_within_span' c T hs hδ

/-- The code as it is now (`searchsorted(T - δ, start)`, `pw = true`, the repair of F9) keeps exactly the
    reference samples whose OWN window lies inside the source span (window starts in order). -/
theorem like_repaired_kept_spec (c : Cont) (T : List Int) (hs : T.Pairwise (· < ·))
    (hw : (T.zip (likeDeltas T)).Pairwise (fun a b => a.1 - a.2 ≤ b.1 - b.2)) :
    likeKept true c T = (T.zip (likeDeltas T)).filter fun p =>
      decide (c.start ≤ p.1 - p.2) && decide (p.1 < c.stop) :=
  likeKept_repaired' c T hs hw

/-- Non-vacuity of the hypotheses of the two theorems above. -/
example : ∀ p ∈ [0, 20, 40, 85, 95, 105].zip (likeDeltas [0, 20, 40, 85, 95, 105]),
    p.2 ≤ (likeDeltas [0, 20, 40, 85, 95, 105]).headD 0 := by decide
example : ([0, 10, 20, 50, 80, 110].zip (likeDeltas [0, 10, 20, 50, 80, 110])).Pairwise
    (fun a b => a.1 - a.2 ≤ b.1 - b.2) := by decide

/-! ## `downsampled_like`, deepening round D: disjoint windows, the code as it is now (`pw = true`) -/

/-- Windows are disjoint: for a strictly increasing reference whose frame-rate changes are isolated (a period
    longer than its predecessor is not followed by a still longer one — `IsolatedGrowth`), every window
    `[T - δ, T)` begins at or after the PREVIOUS reference timestamp, i.e. after the end of every earlier
    window; consequently the window starts are in order (the hypothesis `hw` of `like_repaired_kept_spec`
    is established by the repair, not assumed). -/
theorem like_windows_disjoint (T : List Int) (hs : T.Pairwise (· < ·)) (hg : IsolatedGrowth (diff T)) :
    (T.zip (likeDeltas T)).Pairwise (fun a b => a.1 ≤ b.1 - b.2) ∧
      (T.zip (likeDeltas T)).Pairwise (fun a b => a.1 - a.2 ≤ b.1 - b.2) :=
  ⟨like_windows_disjoint' T hs hg, like_window_starts_sorted' T hs hg⟩

/-- Non-vacuity: the reference of pylake's own test (one long frame, 4 → 6 → 4). -/
example : [0, 4, 8, 12, 16, 34, 40, 46, 50, 54].Pairwise (· < ·) ∧
    IsolatedGrowth (diff [0, 4, 8, 12, 16, 34, 40, 46, 50, 54]) := by decide

/-- Which reference samples the code (as it is now) keeps: exactly those whose OWN window `[T - δ, T)` lies inside
    the source span — no hypothesis on the window starts any more. -/
theorem like_kept_inside_span (c : Cont) (T : List Int) (hs : T.Pairwise (· < ·))
    (hg : IsolatedGrowth (diff T)) :
    likeKept true c T = (T.zip (likeDeltas T)).filter fun p =>
      decide (c.start ≤ p.1 - p.2) && decide (p.1 < c.stop) :=
  likeKept_repaired' c T hs (like_window_starts_sorted' T hs hg)

/-- End-to-end specification of `downsampled_like` as the code is: for a strictly increasing reference with
    isolated frame-rate changes the answer is, in reference order, one sample for EVERY reference timestamp whose
    window `[T - δ, T)` lies inside `[start, stop)`; its value is `f` of exactly the source samples in that window;
    the cropped reference carries the same timestamps; the windows are pairwise disjoint, non-inverted and lie
    within the source span. -/
theorem like_spec (f : List Rat → Rat) (c : Cont) (hdt : 0 < c.dt) (r ds refc : List Sample)
    (h : like true f (.cont c) (.ts r) = .ok (ds, refc))
    (hs : (r.map (·.1)).Pairwise (· < ·)) (hg : IsolatedGrowth (diff (r.map (·.1)))) :
    ∃ W : List (Int × Int),
      W = ((r.map (·.1)).zip (likeDeltas (r.map (·.1)))).filter
            (fun p => decide (c.start ≤ p.1 - p.2) && decide (p.1 < c.stop)) ∧
      ds = W.map (fun p => (p.1, f ((c.samples.filter (inWin (p.1 - p.2) p.1)).map (·.2)))) ∧
      refc.map (·.1) = W.map (·.1) ∧
      W.Pairwise (fun a b => a.1 ≤ b.1 - b.2) ∧
      ∀ p ∈ W, c.start ≤ p.1 - p.2 ∧ p.1 - p.2 ≤ p.1 ∧ p.1 < c.stop := by
  refine ⟨_, rfl, ?_, ?_, ?_, ?_⟩
  · rw [← like_kept_inside_span c _ hs hg]
    exact like_values' true f c hdt (.ts r) ds refc h
  · have h1 := (like_same' true f _ _ ds refc h hs).1
    rw [← h1, like_values' true f c hdt (.ts r) ds refc h, ← like_kept_inside_span c _ hs hg]
    simp only [List.map_map, Src.timestamps]
    rfl
  · exact (like_windows_disjoint' _ hs hg).filter _
  · intro p hp
    rw [List.mem_filter] at hp
    obtain ⟨hm, hc⟩ := hp
    simp only [Bool.and_eq_true, decide_eq_true_eq] at hc
    refine ⟨hc.1, ?_, hc.2⟩
    obtain ⟨j, hj, hjp⟩ := List.mem_iff_getElem.mp hm
    have hlen : ((r.map (·.1)).zip (likeDeltas (r.map (·.1)))).length = (r.map (·.1)).length := by
      rw [List.length_zip]; exact Nat.min_eq_left (likeDeltas_length _)
    have e := zip_getD (r.map (·.1)) _ (likeDeltas_length _) j (by omega)
    rw [List.getElem?_eq_getElem hj, hjp] at e
    simp only [Option.some.injEq] at e
    have := (likeDeltas_bounds _ hs hg j (by omega)).1
    rw [e]; simp only; omega

/-- Necessity of `IsolatedGrowth` (kernel-checked test on two references): periods 10, 20, 30, 30 grow twice in a
    row; the repair gives window lengths 10, 10, 30, 30, 30 and the window `[0, 30)` of the sample at 30 overlaps
    the window `[0, 10)` of the sample at 10.  With periods 10, 20, 50, 50 even the window STARTS are out of order
    (the case the tie leaves out: `np.searchsorted` on an unsorted array). -/
theorem like_overlap_witness :
    [0, 10, 30, 60, 90].Pairwise (· < ·) ∧ ¬ IsolatedGrowth (diff [0, 10, 30, 60, 90]) ∧
    likeDeltas [0, 10, 30, 60, 90] = [10, 10, 30, 30, 30] ∧
    ¬ ([0, 10, 30, 60, 90].zip (likeDeltas [0, 10, 30, 60, 90])).Pairwise (fun a b => a.1 ≤ b.1 - b.2) ∧
    ¬ ([0, 10, 30, 80, 130].zip (likeDeltas [0, 10, 30, 80, 130])).Pairwise (fun a b => a.1 - a.2 ≤ b.1 - b.2) := by
  decide +kernel


/-- Non-vacuity of `like_spec`: pylake's own test input. -/
example : (like true Reduce.mean.apply
      (.cont ⟨0, 2, [1, 1, 2, 2, 3, 3, 4, 4, 5, 5, 5, 5, 5, 5, 6, 6, 6, 7, 7, 7, 8, 8, 8, 9, 9, 9]⟩)
      (.ts [(0, 0), (4, 1), (8, 2), (12, 3), (16, 4), (34, 6), (40, 7), (46, 8), (50, 9), (54, 10)])).toOption.map (·.1)
    = some [(4, 1), (8, 2), (12, 3), (16, 4), (34, 6), (40, 7), (46, 8), (50, 9)] := by decide +kernel

/-- The flag the protocol op `c04.likewins` prints is the hypothesis of the theorems above. -/
theorem isolatedGrowth_flag (d : List Int) : isolatedGrowthB d = true ↔ IsolatedGrowth d := isolatedGrowthB_iff d

/-- Closed form of the sequential change-point repair (`delta_time[i + 1] = delta_time[i + 2]` for
    every `i` with `d[i] < d[i+1]`, abandoned at the first `IndexError`): a period longer than its
    predecessor is replaced by its successor when there is one; every other period is unchanged. -/
theorem repair_spec (d : List Int) (j : Nat) :
    (repair d)[j]? =
      if 1 ≤ j ∧ j + 1 < d.length ∧ d.getD (j - 1) 0 < d.getD j 0 then d[j + 1]? else d[j]? :=
  repair_getElem? d j

/-- The pylake test reference: one long frame (18) at a frame-rate change 4 → 6, then 6 → 4. -/
example : repair [4, 4, 4, 4, 18, 6, 6, 4, 4] = [4, 4, 4, 4, 6, 6, 6, 4, 4] := by decide
example : likeDeltas [0, 4, 8, 12, 16, 34, 40, 46, 50, 54] = [4, 4, 4, 4, 4, 6, 6, 6, 4, 4] := by decide

/-- Non-vacuity of the `like` theorems: the input of pylake's own test. -/
example : (like false Reduce.mean.apply
      (.cont ⟨0, 2, [1, 1, 2, 2, 3, 3, 4, 4, 5, 5, 5, 5, 5, 5, 6, 6, 6, 7, 7, 7, 8, 8, 8, 9, 9, 9]⟩)
      (.ts [(0, 0), (4, 1), (8, 2), (12, 3), (16, 4), (34, 6), (40, 7), (46, 8), (50, 9), (54, 10)])).toOption
    = some ([(4, 1), (8, 2), (12, 3), (16, 4), (34, 6), (40, 7), (46, 8), (50, 9)],
            [(4, 1), (8, 2), (12, 3), (16, 4), (34, 6), (40, 7), (46, 8), (50, 9)]) := by decide +kernel

/-- Finding F9, kernel-checked: reference periods 10,10,30,30,30 and a source that starts at 65.
    The code keeps the reference sample at 80 (because 80 - δ₀ = 70 ≥ 65) although its window
    `[50, 80)` begins before the source; the value 1 is the mean of the three samples in `[65, 80)`
    only.  With the per-window start index (`pw = true`) the first kept sample is 110. -/
theorem F9_witness :
    (like false Reduce.mean.apply (.cont ⟨65, 5, (List.range 20).map fun (i : Nat) => (i : Rat)⟩)
        (.ts [(0, 0), (10, 1), (20, 2), (50, 3), (80, 4), (110, 5)])).toOption.map (·.1)
      = some [(80, 1), (110, 11 / 2)] ∧
    likeKept false ⟨65, 5, (List.range 20).map fun (i : Nat) => (i : Rat)⟩ [0, 10, 20, 50, 80, 110]
      = [(80, 30), (110, 30)] ∧
    (like true Reduce.mean.apply (.cont ⟨65, 5, (List.range 20).map fun (i : Nat) => (i : Rat)⟩)
        (.ts [(0, 0), (10, 1), (20, 2), (50, 3), (80, 4), (110, 5)])).toOption.map (·.1)
      = some [(110, 11 / 2)] := by decide +kernel

/-! ## `downsampled_like`: refusals (deepening round D) -/

/-- The refusals of `downsampled_like`, in the order the code tests them. -/
theorem like_refusals (pw : Bool) (f : List Rat → Rat) (s : Src) (c' : Cont) (r l : List Sample) :
    like pw f s (.cont c') = .error .type ∧
    like pw f (.ts l) (.ts r) = .error .notImpl := ⟨by cases s <;> rfl, rfl⟩

/-- When `downsampled_like` answers for a continuous source and a time-series reference: the reference holds at
    least two samples (`IndexError` otherwise), the source starts no later than the second-to-last reference
    timestamp `T[-1] - δ[-1]` and stops after the first one (`RuntimeError` otherwise), and at least one reference
    sample is kept (`IndexError` otherwise: the result would be empty). -/
theorem like_answers_iff (pw : Bool) (f : List Rat → Rat) (c : Cont) (r : List Sample) :
    (∃ o, like pw f (.cont c) (.ts r) = .ok o) ↔
      ∃ t0 tl dl, (r.map (·.1)).head? = some t0 ∧ (r.map (·.1)).getLast? = some tl ∧
        (diff (r.map (·.1))).getLast? = some dl ∧ c.start ≤ tl - dl ∧ t0 < c.stop ∧
        likeKept pw c (r.map (·.1)) ≠ [] := by
  unfold like
  simp only
  constructor
  · rintro ⟨o, ho⟩
    split at ho
    · rename_i tl dl t0 h1 h2 h3
      split at ho
      · cases ho
      · rename_i hno
        refine ⟨t0, tl, dl, h3, h1, h2, by omega, by omega, ?_⟩
        intro hk
        simp [likeWindows, hk] at ho
    · cases ho
  · rintro ⟨t0, tl, dl, h3, h1, h2, ha, hb, hk⟩
    simp only [h1, h2, h3]
    rw [if_neg (by omega)]
    cases hK : likeKept pw c (r.map (·.1)) with
    | nil => exact absurd hK hk
    | cons a t =>
      have hne : (List.map (fun (x : Int × List Rat) => (x.1, f x.2)) (likeWindows pw c (r.map (·.1)))) ≠ [] := by
        simp [likeWindows, hK]
      generalize (List.map (fun (x : Int × List Rat) => (x.1, f x.2)) (likeWindows pw c (r.map (·.1)))) = out at *
      cases out with
      | nil => exact absurd rfl hne
      | cons x xs =>
        have : ∃ b, (x :: xs).getLast? = some b := ⟨_, List.getLast?_eq_some_getLast (by simp)⟩
        obtain ⟨b, hb'⟩ := this
        simp only [List.head?_cons, hb']
        exact ⟨_, rfl⟩

example : like true Reduce.mean.apply (.cont ⟨100, 10, [1, 2, 3]⟩) (.ts [(120, 0)]) = .error .index := by decide +kernel
example : like true Reduce.mean.apply (.cont ⟨100, 10, [1, 2, 3]⟩) (.ts [(300, 0), (320, 1), (340, 2)]) = .error .runtime := by
  decide +kernel

/-! ## Arithmetic between two channels -/

/-- `a <op> b` answers only on identical timestamps; the result keeps those timestamps and its data
    are the element-wise results (one per sample of `a`). -/
theorem arith_spec (op : Op) (a b : Src) (ha : a.wf) (hb : b.wf) (r : Src) (h : arith op a b = .ok r) :
    b.timestamps = a.timestamps ∧ r.timestamps = a.timestamps ∧
      r.data = List.zipWith op.apply a.data b.data ∧ r.data.length = a.data.length :=
  arith_ok op a b ha hb r h

/-- Different timestamps are refused (`RuntimeError`), identical ones never are. -/
theorem arith_refused (op : Op) (a b : Src) :
    (b.timestamps ≠ a.timestamps → arith op a b = .error .runtime) ∧
      (b.timestamps = a.timestamps → ∃ r, arith op a b = .ok r) := by
  unfold arith
  constructor
  · intro h; rw [if_pos h]
  · intro h; rw [if_neg (by simp [h])]; exact ⟨_, rfl⟩

example : (arith .div (.cont ⟨100, 10, [1, 2]⟩) (.ts [(100, 3), (110, 4)])).toOption.map (·.samples)
    = some [(100, 1 / 3), (110, 1 / 2)] := by decide +kernel
example : arith .add (.cont ⟨100, 10, [1, 2]⟩) (.ts [(100, 3), (111, 4)]) = .error .runtime := by decide +kernel

/-! ### negation, scalar operands, chains (deepening round D) -/

/-- `-a` and arithmetic with a scalar keep the timestamps and act element-wise. -/
theorem neg_scalar_spec (op : Op) (a : Src) (x : Rat) (rev : Bool) :
    (neg a).timestamps = a.timestamps ∧ (neg a).data = a.data.map (fun v => -v) ∧
    (arithScalar op a x rev).timestamps = a.timestamps ∧
    (arithScalar op a x rev).data = a.data.map (fun v => if rev then op.apply x v else op.apply v x) := by
  refine ⟨withData_timestamps _ _ (by simp), withData_data _ _ (by simp),
    withData_timestamps _ _ (by simp), withData_data _ _ (by simp)⟩

/-- Chaining: the result of `a <op₁> b` is again a channel on the timestamps of `a`, so `(a <op₁> b) <op₂> c`
    answers exactly when `c` carries those timestamps too, and the final result still carries them. -/
theorem arith_chain (op1 op2 : Op) (a b c r : Src) (ha : a.wf) (hb : b.wf) (hc : c.wf)
    (h : arith op1 a b = .ok r) :
    r.wf ∧ ((∃ r', arith op2 r c = .ok r') ↔ c.timestamps = a.timestamps) ∧
      ∀ r', arith op2 r c = .ok r' → r'.timestamps = a.timestamps ∧
        r'.data = List.zipWith op2.apply (List.zipWith op1.apply a.data b.data) c.data := by
  obtain ⟨_, h2, h3, _⟩ := arith_spec op1 a b ha hb r h
  have hr : r.wf := by
    unfold arith at h
    split at h
    · cases h
    · simp only [Except.ok.injEq] at h; rw [← h]; exact withData_wf a _ ha
  refine ⟨hr, ?_, ?_⟩
  · constructor
    · rintro ⟨r', hr'⟩
      have := (arith_spec op2 r c hr hc r' hr').1
      rw [this, h2]
    · intro hct
      exact (arith_refused op2 r c).2 (by rw [hct, h2])
  · intro r' hr'
    obtain ⟨_, g2, g3, _⟩ := arith_spec op2 r c hr hc r' hr'
    exact ⟨by rw [g2, h2], by rw [g3, h3]⟩

/-- Non-vacuity of `arith_chain`: `(a + b) * c` on three channels with the same timestamps; a shifted `c` is refused. -/
example : ((arith .add (.cont ⟨100, 10, [1, 2]⟩) (.ts [(100, 3), (110, 4)])).toOption.bind fun r =>
      (arith .mul r (.cont ⟨100, 10, [2, 3]⟩)).toOption).map (·.samples) = some [(100, 8), (110, 18)] := by decide +kernel
example : ((arith .add (.cont ⟨100, 10, [1, 2]⟩) (.ts [(100, 3), (110, 4)])).toOption.map fun r =>
      arith .mul r (.cont ⟨101, 10, [2, 3]⟩)) = some (.error .runtime) := by decide +kernel

/-- `a - b` is `a + (-b)`: same refusals, same result. -/
theorem sub_eq_add_neg (a b : Src) : arith .sub a b = arith .add a (neg b) := by
  have ht : (neg b).timestamps = b.timestamps := withData_timestamps _ _ (by simp)
  have hd : (neg b).data = b.data.map (fun v => -v) := withData_data _ _ (by simp)
  unfold arith
  rw [ht, hd]
  congr 2
  rw [List.zipWith_map_right]
  have e : Op.sub.apply = fun (a b : Rat) => Op.add.apply a (-b) := by
    funext x y
    simp only [Op.apply]
    exact Rat.sub_eq_add_neg x y
  rw [e]

example : (arith .sub (.cont ⟨100, 10, [5, 7]⟩) (.ts [(100, 1), (110, 3)])).toOption.map (·.samples)
    = some [(100, 4), (110, 4)] := by decide +kernel
example : (arithScalar .div (.ts [(3, 2), (9, 4)]) 8 true).samples = [(3, 4), (9, 2)] := by decide +kernel

/-! ### division by zero (strengthening round H): `x / 0 = ±inf`, `0 / 0 = nan`, element-wise, propagated -/

/-- On finite operands every operator is the `Rat` operator, except a division by zero. -/
theorem applyX_finite (op : Op) (x y : Rat) (h : op ≠ .div ∨ y ≠ 0) :
    op.applyX (.fin x) (.fin y) = .fin (op.apply x y) := by
  cases op with
  | add => rfl
  | sub => simp only [Op.applyX, XVal.neg, XVal.add, Op.apply]; rw [Rat.sub_eq_add_neg]
  | mul => rfl
  | div =>
    have hy : y ≠ 0 := by
      rcases h with h | h
      · exact absurd rfl h
      · exact h
    simp only [Op.applyX, XVal.div, Op.apply, if_neg hy]

/-- Division by a zero sample: the infinity with the sign of the numerator, `nan` for `0 / 0` (IEEE, what numpy's `/`
    returns) — never a finite number, and not `nan` for a non-zero numerator. -/
theorem div_zero_spec (x : Rat) :
    (0 < x → Op.div.applyX (.fin x) (.fin 0) = .pinf) ∧ (x < 0 → Op.div.applyX (.fin x) (.fin 0) = .ninf) ∧
      (x = 0 → Op.div.applyX (.fin x) (.fin 0) = .nan) := by
  simp only [Op.applyX, XVal.div, XVal.ofSign, if_true]
  refine ⟨fun h => by rw [if_pos h], fun h => ?_, fun h => ?_⟩
  · rw [if_neg (Rat.not_lt.mpr (Rat.le_of_lt h)), if_pos h]
  · subst h; decide

/-- `a <op> b` over the extended values: identical timestamps are required and kept, the data are the element-wise
    results. -/
theorem arithX_spec (op : Op) (a b r : XChan) (h : arithX op a b = .ok r) :
    b.ts = a.ts ∧ r.ts = a.ts ∧ r.data = List.zipWith op.applyX a.data b.data := by
  unfold arithX at h
  split at h
  · cases h
  · rename_i hne
    have heq : b.ts = a.ts := Classical.not_not.mp hne
    simp only [Except.ok.injEq] at h
    subst h
    exact ⟨heq, rfl, rfl⟩

theorem arithX_refused (op : Op) (a b : XChan) :
    (b.ts ≠ a.ts → arithX op a b = .error .runtime) ∧ (b.ts = a.ts → ∃ r, arithX op a b = .ok r) := by
  unfold arithX
  constructor
  · intro h; rw [if_pos h]
  · intro h; rw [if_neg (by simp [h])]; exact ⟨_, rfl⟩

theorem zipWith_applyX_fin (op : Op) : ∀ (xs ys : List Rat), (op ≠ .div ∨ ∀ y ∈ ys, y ≠ 0) →
    List.zipWith op.applyX (xs.map .fin) (ys.map .fin) = (List.zipWith op.apply xs ys).map .fin
  | [], _, _ => by simp
  | _ :: _, [], _ => by simp
  | x :: xs, y :: ys, h => by
    have hy : op ≠ .div ∨ y ≠ 0 := h.imp id (fun h => h y (by simp))
    have ht : op ≠ .div ∨ ∀ y ∈ ys, y ≠ 0 := h.imp id (fun h y' hy' => h y' (by simp [hy']))
    simp only [List.map_cons, List.zipWith_cons_cons, applyX_finite op x y hy, zipWith_applyX_fin op xs ys ht]

/-- Without a zero divisor the extended arithmetic is `arith` (to which `arith_spec`, `arith_chain`, `sub_eq_add_neg`
    apply): same refusals, same timestamps, same finite values. -/
theorem arithX_eq_arith (op : Op) (a b : Src) (ha : a.wf) (hb : b.wf) (hz : op ≠ .div ∨ ∀ y ∈ b.data, y ≠ 0) :
    arithX op a.toX b.toX = (arith op a b).map Src.toX := by
  by_cases hts : b.timestamps = a.timestamps
  · obtain ⟨r, hr⟩ := (arith_refused op a b).2 hts
    obtain ⟨_, h2, h3, _⟩ := arith_spec op a b ha hb r hr
    rw [hr]
    have e : arithX op a.toX b.toX = .ok ⟨a.timestamps, List.zipWith op.applyX (a.data.map .fin) (b.data.map .fin)⟩ := by
      unfold arithX
      rw [if_neg (by simp [Src.toX, hts])]
      rfl
    rw [e, zipWith_applyX_fin op a.data b.data hz]
    simp only [Except.map, Src.toX, h2, h3]
  · rw [(arith_refused op a b).1 hts]
    unfold arithX
    rw [if_pos (by simpa [Src.toX] using hts)]
    rfl

/-- Non-vacuity / the photon-count ratio of the seeded change C04g-m2: `[3, 0, 5, -2] / [1, 0, 0, 0]`. -/
example : (arithX .div (Src.toX (.cont ⟨100, 10, [3, 0, 5, -2]⟩)) (Src.toX (.ts [(100, 1), (110, 0), (120, 0), (130, 0)]))).toOption.map (·.samples)
    = some [(100, .fin 3), (110, .nan), (120, .pinf), (130, .ninf)] := by decide +kernel
/-- the infinity propagates through a chain: `(a / b) * c`, `inf * 0 = nan`, `inf * (-1) = -inf` -/
example : ((arithX .div (Src.toX (.cont ⟨0, 1, [1, 1, 1]⟩)) (Src.toX (.cont ⟨0, 1, [0, 0, 2]⟩))).toOption.bind fun r =>
      (arithX .mul r (Src.toX (.cont ⟨0, 1, [0, -1, 4]⟩))).toOption).map (·.data) = some [.nan, .ninf, .fin 2] := by decide +kernel
example : (arithScalarX .div (Src.toX (.ts [(3, 0), (9, 4)])) (-8) true).data = [.ninf, .fin (-2)] := by decide +kernel

end Verif.C04
