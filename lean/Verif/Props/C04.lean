import Verif.Lemmas.C04
