/-
  C09 — property theorems: MSD and diffusion estimators match their definitions and physical
  symmetries.  Every theorem is about the executable model `Verif.Model.C09` (all over `ℚ`, hence for
  every float input read exactly), which the correspondence check ties to
  `lumicks/pylake/kymotracker/detail/msd_estimation.py` and `kymotrack.py` on every run.
  Helper lemmas live in `Verif.Lemmas.C09`.
-/
import Verif.Lemmas.C09

namespace Verif.C09
open Verif.Py

/-! ## the transformations the property talks about -/

/-- translate all positions by `c` -/
def translate (c : Rat) (t : List Pt) : List Pt := t.map fun p => (p.1, p.2 + c)
/-- mirror all positions -/
def mirror (t : List Pt) : List Pt := t.map fun p => (p.1, -p.2)
/-- shift all frame indices by `k` -/
def frameShift (k : Int) (t : List Pt) : List Pt := t.map fun p => (p.1 + k, p.2)
/-- scale all positions by `a` (e.g. another pixel size) -/
def scale (a : Rat) (t : List Pt) : List Pt := t.map fun p => (p.1, a * p.2)
/-- frame indices strictly increasing (what a `KymoTrack` holds) -/
def Increasing (t : List Pt) : Prop := t.Pairwise fun a b => a.1 < b.1

/-! ## MSD: definition -/

/-- SPECIFICATION: the squared displacements of all point pairs (earlier, later) whose frame difference
    is `δ` — `meshUp (a :: r) = r.map (pair a) ++ meshUp r` lists every unordered pair once. -/
def specSel (t : List Pt) (δ : Int) : List Rat := ((meshUp t).filter fun p => p.1 == δ).map (·.2)

/-- **msd_def.** For a track with strictly increasing frames, the value reported at each lag is the
    mean of the squared displacements over ALL point pairs separated by that lag, and the reported
    count is the number of those pairs — although the code selects from the full `N × N` mesh of
    ordered pairs.  For every `max_lag` (also `None` and negative values). -/
theorem msd_def (t : List Pt) (h : Increasing t) (L : Option Int) :
    msdCounts t L = (lagsOf t L).map fun δ => ⟨δ, mean (specSel t δ), (specSel t δ).length⟩ := by
  unfold msdCounts
  apply List.map_congr_left
  intro δ hδ
  have hpos := ((mem_lagsAll t δ).mp (mem_lagsAll_of_mem_lagsOf t L δ hδ)).1
  have : sel (mesh t) δ = specSel t δ := by
    unfold sel specSel; rw [filter_mesh_eq_meshUp t h δ hpos]
  simp only [this]

example : Increasing [(0, 1), (1, 3), (4, 2)] := by simp [Increasing]

/-- **msd_lags.** The lags reported are the Python slice `[:max_lag]` of the strictly increasing list of
    ALL positive frame differences realised by some pair of points. -/
theorem msd_lags (t : List Pt) (L : Option Int) :
    (msdCounts t L).map (·.lag) = pySliceOpt (lagsAll t) none L ∧
    (lagsAll t).Pairwise (· < ·) ∧
    ∀ δ, δ ∈ lagsAll t ↔ 0 < δ ∧ ∃ a ∈ t, ∃ b ∈ t, b.1 - a.1 = δ := by
  refine ⟨?_, lagsAll_sorted t, mem_lagsAll t⟩
  unfold msdCounts lagsOf
  rw [List.map_map]
  exact List.map_id' _

/-- for `max_lag ≥ 0` the slice keeps the `max_lag` smallest lags -/
theorem msd_lags_take (t : List Pt) (L : Int) (h : 0 ≤ L) :
    (msdCounts t (some L)).map (·.lag) = (lagsAll t).take L.toNat := by
  rw [(msd_lags t (some L)).1, pySliceOpt_nonneg _ _ h]

example : (0 : Int) ≤ 3 := by decide

/-- every reported MSD is a genuine mean: at least one pair contributes. -/
theorem msd_count_pos (t : List Pt) (L : Option Int) (r : MsdRow) (hr : r ∈ msdCounts t L) :
    0 < r.count := by
  unfold msdCounts at hr
  obtain ⟨δ, hδ, rfl⟩ := List.mem_map.mp hr
  exact sel_ne_nil_of_mem_lagsAll t δ (mem_lagsAll_of_mem_lagsOf t L δ hδ)

/-- `KymoTrack.msd`: lag times are `lag · line_time`, the MSD values are untouched. -/
theorem kymo_msd_units (t : List Pt) (dt : Rat) (L : Int) (hL : L ≠ 0) :
    kymoMsd t dt (some L) = (msdCounts t (some L)).map fun r => ((r.lag : Rat) * dt, r.msd) := by
  unfold kymoMsd; simp [hL]

example : (2 : Int) ≠ 0 := by decide

/-! ## MSD: symmetries -/

theorem msd_translate (c : Rat) (t : List Pt) (L : Option Int) :
    msdCounts (translate c t) L = msdCounts t L := by
  apply msdCounts_of_mesh_eq
  apply mesh_map_eq
  intro a b
  simp only [pair, sqr]
  congr 1; ring

theorem msd_mirror (t : List Pt) (L : Option Int) : msdCounts (mirror t) L = msdCounts t L := by
  apply msdCounts_of_mesh_eq
  apply mesh_map_eq
  intro a b
  simp only [pair, sqr]
  congr 1; ring

theorem msd_frame_shift (k : Int) (t : List Pt) (L : Option Int) :
    msdCounts (frameShift k t) L = msdCounts t L := by
  apply msdCounts_of_mesh_eq
  apply mesh_map_eq
  intro a b
  simp only [pair]
  congr 1; omega

/-- positions scaled by `a` ⇒ every MSD scales by `a²`; lags and counts are unchanged. -/
theorem msd_scale (a : Rat) (t : List Pt) (L : Option Int) :
    msdCounts (scale a t) L = (msdCounts t L).map fun r => ⟨r.lag, a ^ 2 * r.msd, r.count⟩ := by
  apply msdCounts_of_mesh_scale
  apply mesh_map_of_pair
  intro p q
  simp only [pair, sqr, scaleSnd]
  congr 1; ring

/-- the line time only enters `KymoTrack.msd` through the lag times. -/
theorem kymo_msd_time_scale (c dt : Rat) (t : List Pt) (L : Option Int) :
    kymoMsd t (c * dt) L = (kymoMsd t dt L).map fun p => (c * p.1, p.2) := by
  unfold kymoMsd
  rw [List.map_map]
  apply List.map_congr_left
  intro r _
  simp only [Function.comp, Prod.mk.injEq, and_true]; ring

/-- **gls_inherits** (ext). Whatever is computed from `(lags, msd, counts)` and the number of points —
    OLS with any lag choice, GLS with its fixed-point iteration, `determine_optimal_points` — inherits
    the translate / mirror / frame-shift invariance. -/
theorem gls_inherits {β : Type} (F : List MsdRow → Nat → β) (t : List Pt) (L : Option Int) (c : Rat) (k : Int) :
    F (msdCounts (translate c t) L) (translate c t).length = F (msdCounts t L) t.length ∧
    F (msdCounts (mirror t) L) (mirror t).length = F (msdCounts t L) t.length ∧
    F (msdCounts (frameShift k t) L) (frameShift k t).length = F (msdCounts t L) t.length := by
  rw [msd_translate, msd_mirror, msd_frame_shift]
  simp [translate, mirror, frameShift]

/-! ## CVE: closed form and symmetries (with missing frames, blur constant and known variance) -/

/-- the average frame step is the frame span divided by the number of intervals (missing frames). -/
theorem cve_avg_step (p q : Pt) (mid : List Pt) :
    avgStep (p :: (mid ++ [q])) = ((q.1 - p.1 : Int) : Rat) / ((mid.length + 1 : Nat) : Rat) := by
  unfold avgStep
  have e : (p :: (mid ++ [q])).map (·.1) = p.1 :: (mid.map (·.1) ++ [q.1]) := by simp
  rw [e, sum_diffI_telescope, length_diffI]
  simp

/-- **cve_def.** With the localisation variance unknown (`None`) the estimate is Vestergaard's closed
    form `D = ⟨Δx²⟩/(2⟨Δt⟩) + ⟨Δx_i Δx_{i+1}⟩/⟨Δt⟩`, `σ² = R⟨Δx²⟩ + (2R−1)⟨Δx_i Δx_{i+1}⟩`,
    with `⟨Δt⟩ = avgStep · dt`. -/
theorem cve_def (t : List Pt) (dt R : Rat) (hR : 0 ≤ R ∧ R ≤ 1 / 4) (hn : 3 ≤ t.length) :
    ∃ o, cve t dt R none none = .ok o ∧
      o.D = m2 t / (2 * (avgStep t * dt)) + mc t / (avgStep t * dt) ∧
      o.lv = R * m2 t + (2 * R - 1) * mc t ∧
      o.var = varUnknown o.D o.lv dt t.length R (avgStep t) := by
  unfold cve
  rw [if_neg (by simpa using hR), if_neg (by omega)]
  exact ⟨_, rfl, rfl, rfl, rfl⟩

example : (0 : Rat) ≤ 1 / 6 ∧ (1 / 6 : Rat) ≤ 1 / 4 := by constructor <;> norm_num

/-- with a known (non-zero) localisation variance: `D = (⟨Δx²⟩ − 2σ²)/(2(⟨Δt⟩ − 2R·dt))`. -/
theorem cve_def_known (t : List Pt) (dt R l v : Rat) (hR : 0 ≤ R ∧ R ≤ 1 / 4) (hn : 3 ≤ t.length)
    (hl : l ≠ 0) :
    ∃ o, cve t dt R (some l) (some v) = .ok o ∧
      o.D = (m2 t - 2 * l) / (2 * (avgStep t * dt - 2 * R * dt)) ∧ o.lv = l ∧
      o.var = varKnown o.D l v dt t.length R (avgStep t) := by
  unfold cve
  rw [if_neg (by simpa using hR), if_neg (by omega)]
  simp only [cveCore, if_neg hl]
  exact ⟨_, rfl, rfl, rfl, rfl⟩

private theorem cve_of_dxs_eq (t t' : List Pt) (hn : t'.length = t.length) (hs : avgStep t' = avgStep t)
    (hd : dxs t' = dxs t) (dt R : Rat) (lv vlv : Option Rat) :
    cve t' dt R lv vlv = cve t dt R lv vlv := by
  apply cve_congr _ _ hn hs
  · unfold m2; rw [hd]
  · unfold mc; rw [hd]

theorem cve_translate (c : Rat) (t : List Pt) (dt R : Rat) (lv vlv : Option Rat) :
    cve (translate c t) dt R lv vlv = cve t dt R lv vlv := by
  apply cve_of_dxs_eq
  · simp [translate]
  · exact avgStep_map (fun p => (p.1, p.2 + c)) id (fun _ => rfl) (fun _ _ => rfl) t
  · rw [translate, dxs_map (fun p => (p.1, p.2 + c)) (· + c) id (fun _ => rfl) (fun a b => by simp)]
    simp

theorem cve_mirror (t : List Pt) (dt R : Rat) (lv vlv : Option Rat) :
    cve (mirror t) dt R lv vlv = cve t dt R lv vlv := by
  have hd : dxs (mirror t) = (dxs t).map ((-1 : Rat) * ·) :=
    dxs_map (fun p => (p.1, -p.2)) (fun x => -x) _ (fun _ => rfl) (fun a b => by ring) t
  apply cve_congr
  · simp [mirror]
  · exact avgStep_map (fun p => (p.1, -p.2)) id (fun _ => rfl) (fun _ _ => rfl) t
  · rw [m2_of_dxs_scale _ _ _ hd]; ring
  · rw [mc_of_dxs_scale _ _ _ hd]; ring

theorem cve_frame_shift (k : Int) (t : List Pt) (dt R : Rat) (lv vlv : Option Rat) :
    cve (frameShift k t) dt R lv vlv = cve t dt R lv vlv := by
  apply cve_of_dxs_eq
  · simp [frameShift]
  · exact avgStep_map (fun p => (p.1 + k, p.2)) (· + k) (fun _ => rfl) (fun a b => by omega) t
  · rw [frameShift, dxs_map (fun p => (p.1 + k, p.2)) id id (fun _ => rfl) (fun a b => rfl)]
    simp

/-- positions scaled by `a ≠ 0` (and a known localisation variance / its variance scaled
    consistently by `a²` / `a⁴`): `D ↦ a²D`, `σ² ↦ a²σ²`, `var(D) ↦ a⁴ var(D)` — on every branch,
    with missing frames and any blur constant; errors are unchanged. -/
theorem cve_scale (a : Rat) (ha : a ≠ 0) (t : List Pt) (dt R : Rat) (lv vlv : Option Rat) :
    cve (scale a t) dt R (lv.map (a ^ 2 * ·)) (vlv.map (a ^ 4 * ·)) =
      (cve t dt R lv vlv).map fun o => ⟨a ^ 2 * o.D, a ^ 4 * o.var, a ^ 2 * o.lv⟩ := by
  have hd : dxs (scale a t) = (dxs t).map (a * ·) :=
    dxs_map (fun p => (p.1, a * p.2)) (a * ·) _ (fun _ => rfl) (fun x y => by ring) t
  have hs : avgStep (scale a t) = avgStep t :=
    avgStep_map (fun p => (p.1, a * p.2)) id (fun _ => rfl) (fun _ _ => rfl) t
  have hn : (scale a t).length = t.length := by simp [scale]
  have e2 : a ^ 2 = a * a := by ring
  have e4 : a ^ 4 = a * a * (a * a) := by ring
  unfold cve
  rw [hn, hs, m2_of_dxs_scale _ _ _ hd, mc_of_dxs_scale _ _ _ hd]
  split
  · rfl
  split
  · rfl
  rw [e2, e4]
  cases lv with
  | none => simp only [cveCore, Option.map_none, Except.map, cveUnknown_scale]
  | some l =>
    by_cases hl : l = 0
    · subst hl
      simp only [cveCore, Option.map_some, mul_zero, if_true, Except.map, cveUnknown_scale]
    · have hl' : a * a * l ≠ 0 := mul_ne_zero (mul_ne_zero ha ha) hl
      cases vlv with
      | none => simp only [cveCore, Option.map_some, Option.map_none, if_neg hl, if_neg hl', Except.map]
      | some v =>
        simp only [cveCore, Option.map_some, if_neg hl, if_neg hl', Except.map, cveKnown_scale]

example : (2 : Rat) ≠ 0 := by norm_num

/-- line time scaled by `c`: `D ↦ D/c`, `var(D) ↦ var(D)/c²`, the localisation variance is unchanged. -/
theorem cve_time_scale (c : Rat) (t : List Pt) (dt R : Rat) (lv vlv : Option Rat) :
    cve t (c * dt) R lv vlv =
      (cve t dt R lv vlv).map fun o => ⟨o.D / c, o.var / c ^ 2, o.lv⟩ := by
  have e2 : c ^ 2 = c * c := by ring
  unfold cve
  split
  · rfl
  split
  · rfl
  rw [e2]
  cases lv with
  | none => simp only [cveCore, Except.map, cveUnknown_time]
  | some l =>
    by_cases hl : l = 0
    · simp only [cveCore, hl, if_true, Except.map, cveUnknown_time]
    · cases vlv with
      | none => simp only [cveCore, if_neg hl, Except.map]
      | some v => simp only [cveCore, if_neg hl, Except.map, cveKnown_time]

/-! ## OLS -/

/-- **ols_normal_equations.** The reported `(intercept, slope)` solve the normal equations of the
    least-squares line through the MSD points: the residuals sum to zero and are orthogonal to the
    lags. -/
theorem ols_normal_equations (pts : List (Rat × Rat)) (h : olsDen pts ≠ 0) :
    resSum pts (olsLine pts).1 (olsLine pts).2 = 0 ∧
    resLagSum pts (olsLine pts).1 (olsLine pts).2 = 0 := olsLine_normal pts h

example : olsDen [(1, 1), (2, 3), (3, 4)] ≠ 0 := by norm_num [olsDen, sqr]

/-- **ols_minimises.** No other line has a smaller sum of squared residuals. -/
theorem ols_minimises (pts : List (Rat × Rat)) (h : olsDen pts ≠ 0) (a' b' : Rat) :
    sse pts (olsLine pts).1 (olsLine pts).2 ≤ sse pts a' b' := by
  obtain ⟨h1, h2⟩ := olsLine_normal pts h
  rw [sse_expand pts (olsLine pts).1 (olsLine pts).2 a' b', h1, h2]
  have := sum_nonneg_of (fun p : Rat × Rat => sqr (a' - (olsLine pts).1 + (b' - (olsLine pts).2) * p.1)) pts
    (fun p _ => by simp only [sqr]; exact mul_self_nonneg _)
  linarith

/-- the OLS estimate (value, squared standard error, localisation variance, errors) is invariant under
    translating / mirroring the positions and shifting the frame indices. -/
theorem ols_invariant (t : List Pt) (dt : Rat) (L : Int) (c : Rat) (k : Int) :
    olsEstimate (translate c t) dt L = olsEstimate t dt L ∧
    olsEstimate (mirror t) dt L = olsEstimate t dt L ∧
    olsEstimate (frameShift k t) dt L = olsEstimate t dt L := by
  unfold olsEstimate
  rw [msd_translate, msd_mirror, msd_frame_shift]
  simp [translate, mirror, frameShift]

/-! ## ensembles -/

/-- **weighted_mean_def.** `weighted_mean_and_sd` returns the documented quantities: the mean weighted
    by the counts, the weighted variance with the effective-sample-size bias correction
    `ΣN/((ΣN)² − ΣN²) · ΣN(R − R̄)²`, the total count and `N_eff = (ΣN)²/ΣN²`. -/
theorem weighted_mean_def (mc : List (Rat × Rat)) (h : 2 ≤ mc.length) :
    ∃ w, weightedMeanSd mc = .ok w ∧
      w.countSum = (mc.map (·.2)).sum ∧
      w.mean = (mc.map fun p => p.1 * p.2).sum / (mc.map (·.2)).sum ∧
      w.var = (mc.map fun p => p.2 * sqr (p.1 - w.mean)).sum *
        ((mc.map (·.2)).sum / (sqr (mc.map (·.2)).sum - (mc.map fun p => sqr p.2).sum)) ∧
      w.ess = sqr (mc.map (·.2)).sum / (mc.map fun p => sqr p.2).sum :=
  weightedMeanSd_ok mc h

example : 2 ≤ [((1 : Rat), (2 : Rat)), (3, 4)].length := by decide

/-- **ensemble_identical (per lag).** When every contributing track reports the same MSD `m` with the
    same count `c` (an ensemble of `k ≥ 2` identical tracks), the ensemble value is `m` itself, its
    variance is 0, the counts add up and the effective sample size is the number of tracks. -/
theorem weighted_identical (m c : Rat) (k : Nat) (hk : 2 ≤ k) (hc : c ≠ 0) :
    weightedMeanSd (List.replicate k (m, c)) = .ok ⟨m, 0, k * c, k⟩ := by
  have hk0 : (k : Rat) ≠ 0 := by
    have : (0 : Rat) < k := by exact_mod_cast (by omega : 0 < k)
    exact ne_of_gt this
  unfold weightedMeanSd
  rw [if_neg (by simp; omega)]
  simp only [List.map_replicate, sum_replicate_rat, sqr]
  congr 1
  have hm : (k : Rat) * (m * c) / (k * c) = m := by field_simp
  rw [hm]
  congr 1
  · simp
  · field_simp

example : (2 : Nat) ≤ 3 ∧ (5 : Rat) ≠ 0 := by constructor <;> norm_num

/-- the regrouping of `merge_track_msds` on `k` copies of one list of rows with distinct lags -/
theorem ensembleMsdRows_replicate (rows : List MsdRow) (hs : (rows.map (·.lag)).Pairwise (· < ·))
    (hc : ∀ r ∈ rows, r.count ≠ 0) (hne : rows ≠ []) (k : Nat) (hk : 2 ≤ k) (minCount : Int)
    (hm : minCount ≤ k) :
    ensembleMsdRows (List.replicate k rows) minCount =
      .ok (rows.map fun r => ⟨r.lag, ⟨r.msd, 0, k * r.count, k⟩⟩) := by
  unfold ensembleMsdRows
  rw [List.length_replicate, if_neg (by omega)]
  have hlags : uniqueSorted (((List.replicate k rows).flatten).map (·.lag)) = rows.map (·.lag) := by
    apply uniqueSorted_of_sorted _ _ hs
    intro x
    simp only [List.mem_map, mem_flat_replicate rows k (by omega)]
  have hkept : ∀ u ∈ rows.map (·.lag),
      decide (minCount ≤ (((List.replicate k rows).flatten.countP fun r => r.lag == u : Nat) : Int)) = true := by
    intro u hu
    obtain ⟨r, hr, rfl⟩ := List.mem_map.mp hu
    rw [List.countP_eq_length_filter, flat_filter_replicate rows hs k r hr, List.length_replicate]
    simpa using hm
  simp only [hlags, List.filter_eq_self.mpr hkept, List.mapM_map]
  rw [mapM_ok _ (fun r : MsdRow => (⟨r.lag, ⟨r.msd, 0, k * r.count, k⟩⟩ : EnsRow))]
  · simp only
    rw [if_neg]
    simpa using hne
  · intro r hr
    simp only [Function.comp]
    rw [flat_filter_replicate rows hs k r hr, List.map_replicate,
      weighted_identical r.msd r.count k hk (by exact_mod_cast hc r hr)]
    rfl

theorem msdCounts_lags_sorted (t : List Pt) (L : Option Int) :
    ((msdCounts t L).map (·.lag)).Pairwise (· < ·) := by
  rw [(msd_lags t L).1]
  exact (lagsAll_sorted t).sublist (pySliceOpt_sublist _ _)

/-- **ensemble_identical (MSD).** An ensemble of `k ≥ 2` identical tracks reproduces, at every lag, the
    single-track MSD, with variance 0, `k·count` contributing pairs and effective sample size `k`
    (for every `max_lag` and every `min_count ≤ k`). -/
theorem ensemble_identical_msd (t : List Pt) (L : Option Int) (k : Nat) (hk : 2 ≤ k) (minCount : Int)
    (hm : minCount ≤ k) (hne : msdCounts t L ≠ []) :
    ensembleMsd (List.replicate k t) L minCount =
      .ok ((msdCounts t L).map fun r => ⟨r.lag, ⟨r.msd, 0, k * r.count, k⟩⟩) := by
  unfold ensembleMsd
  rw [List.map_replicate]
  exact ensembleMsdRows_replicate _ (msdCounts_lags_sorted t L)
    (fun r hr => by have := msd_count_pos t L r hr; omega) hne k hk minCount hm

example : (2 : Nat) ≤ 3 ∧ ((1 : Int) ≤ (3 : Nat)) ∧ msdCounts [(0, 0), (1, 1), (3, 2)] none ≠ [] := by
  refine ⟨by decide, by decide, ?_⟩
  intro h
  have : (msdCounts [(0, 0), (1, 1), (3, 2)] none).map (·.lag) = [] := by rw [h]; rfl
  rw [(msd_lags _ _).1] at this
  revert this
  decide

/-- **ensemble_identical (anything computed from the MSD curve)** (ext).  `ensemble_ols` works on the points
    `(lag, ensemble msd)` and takes `number of lags + 1` for the track length.  For `k ≥ 2` identical tracks these are
    exactly the points `(lag, msd)` of the single track and its number of lags.  So whatever is computed from them — the OLS
    line for an explicit `max_lag`; for `max_lag=None` the number of lags `determine_optimal_points` arrives at (outside the
    model: non-rational powers) and the OLS line through that many points — is what the same computation gives on the
    single-track curve with track length `lags + 1`; for a track without missing frames (lags `1 … N−1`) that is its number
    of points `N`, the length the single-track estimate uses.  (With missing frames `lags + 1` is in general not `N`:
    second example below; there the library warns that the automatic number of lags is unreliable and the check does not
    assert the relation for `max_lag=None`.) -/
theorem ensemble_identical_curve {β : Type} (F : List (Int × Rat) → Nat → β) (t : List Pt) (L : Option Int)
    (k : Nat) (hk : 2 ≤ k) (hne : msdCounts t L ≠ []) :
    ∃ rows, ensembleMsd (List.replicate k t) L 2 = .ok rows ∧
      F (rows.map fun r => (r.lag, r.st.mean)) (rows.length + 1) =
        F ((msdCounts t L).map fun r => (r.lag, r.msd)) ((msdCounts t L).length + 1) := by
  refine ⟨_, ensemble_identical_msd t L k hk 2 (by exact_mod_cast hk) hne, ?_⟩
  simp only [List.map_map, List.length_map, Function.comp_def]

/-- non-vacuity, and the track length `lags + 1`: the number of points of a track without missing frames … -/
example : (msdCounts [(4, 0), (5, 1), (6, 3), (7, 2), (8, 5)] none).length + 1 = 5 := by decide +kernel
/-- … but not of a track with missing frames (5 points on frames 0,1,2,3,5: lags 1..5). -/
example : (msdCounts [(0, 0), (1, 1), (2, 3), (3, 2), (5, 5)] none).length + 1 = 6 := by decide +kernel

/-- **ensemble_identical (CVE).** The ensemble CVE of `k ≥ 2` copies of a track returns that track's diffusion
    constant and localisation variance, with zero ensemble variance and `k·N` points. -/
theorem ensemble_identical_cve (t : List Pt) (dt R : Rat) (k : Nat) (hk : 2 ≤ k) (hn : 3 ≤ t.length)
    (o : Cve) (ho : cve t dt R none none = .ok o) :
    ensembleCve (List.replicate k t) dt R = .ok ⟨o.D, 0, o.lv, 0, k * t.length⟩ := by
  obtain ⟨j, rfl⟩ : ∃ j, k = j + 2 := ⟨k - 2, by omega⟩
  have hc : ((t.length : Nat) : Rat) ≠ 0 := by
    have : (0 : Rat) < (t.length : Nat) := by exact_mod_cast (by omega : 0 < t.length)
    exact ne_of_gt this
  have hmap : (List.replicate (j + 2) t).mapM (fun t => (cve t dt R none none).map fun c => (c, t.length))
      = .ok (List.replicate (j + 2) (o, t.length)) := by
    rw [mapM_ok _ (fun _ => (o, t.length))]
    · simp
    · intro x hx; rw [(List.mem_replicate.mp hx).2, ho]; rfl
  have e : List.replicate (j + 2) (o, t.length) = (o, t.length) :: (o, t.length) :: List.replicate j (o, t.length) := by
    simp [List.replicate_succ]
  unfold ensembleCve
  rw [List.filter_replicate, if_pos (by simpa using hn)]
  simp only [hmap]
  rw [e]
  simp only
  rw [← e]
  simp only [List.map_replicate, meanVar_replicate _ _ _ hk hc]
  congr 2
  simp [List.sum_replicate]

example : ∃ o, cve [(0, 0), (1, 1), (3, 3)] 1 (1 / 6) none none = .ok o := by
  obtain ⟨o, h, _⟩ := cve_def [(0, 0), (1, 1), (3, 3)] 1 (1 / 6) (by constructor <;> norm_num) (by simp)
  exact ⟨o, h⟩

/-- positions scaled by `a`: OLS value and localisation variance scale by `a²`, the squared standard
    error by `a⁴`; errors unchanged. -/
theorem ols_scale (a : Rat) (t : List Pt) (dt : Rat) (L : Int) :
    olsEstimate (scale a t) dt L =
      (olsEstimate t dt L).map fun e => ⟨a ^ 2 * e.value, a ^ 4 * e.var, a ^ 2 * e.lv, e.varDefined⟩ := by
  have e2 : a ^ 2 = a * a := by ring
  have e4 : a ^ 4 = a * a * (a * a) := by ring
  unfold olsEstimate
  split
  · rfl
  · rw [msd_scale, e2, e4, olsFromRows_scale]
    simp [scale]

/-- line time scaled by `c`: value `/c`, squared standard error `/c²`, localisation variance unchanged. -/
theorem ols_time_scale (c : Rat) (t : List Pt) (dt : Rat) (L : Int) :
    olsEstimate t (c * dt) L =
      (olsEstimate t dt L).map fun e => ⟨e.value / c, e.var / c ^ 2, e.lv, e.varDefined⟩ := by
  unfold olsEstimate
  split
  · rfl
  · simp only [olsFromRows]
    by_cases h : olsDen (ptsOf (msdCounts t (some L))) = 0
    · simp only [h, if_true, Except.map]
    · generalize olsLine (ptsOf (msdCounts t (some L))) = ab
      obtain ⟨a, b⟩ := ab
      simp only [h, if_false, Except.map, if_true, sqr, Except.ok.injEq, Est.mk.injEq, and_true]
      refine ⟨by ring, by ring⟩

/-! ## the automatic number of lags (`max_lag=None`) — every theorem holds for EVERY `optimal_points` function `op`
    (the run executes `optimalPointsF`, Michalet & Berglund's formulas in doubles) -/

/-- **optimal_points_cache.** `determine_optimal_points` (which recomputes the MSD curve only when more lags are needed
    than it has cached, carries `num_intercept` / `number_computed` along and fits the first `num_slope` CACHED points)
    returns what the plain search returns that computes the MSD curve afresh for exactly the lags it fits
    (`optSpec`): the cache and the bookkeeping do not influence the result. -/
theorem optimal_points_cache (op : OptPts) (t : List Pt) :
    detOpt op t = optSpec op t 100 (max 2 (t.length / 10), max 2 (t.length / 10)) [] := by
  unfold detOpt
  rw [optLoop_eq_spec op t 100 _ (optInit_inv t _)]
  rfl

/-- the automatic number of lags is invariant under translating / mirroring positions and shifting frame indices. -/
theorem optimal_points_invariant (op : OptPts) (t : List Pt) (c : Rat) (k : Int) :
    detOpt op (translate c t) = detOpt op t ∧ detOpt op (mirror t) = detOpt op t ∧
    detOpt op (frameShift k t) = detOpt op t := by
  simp only [optimal_points_cache]
  refine ⟨?_, ?_, ?_⟩
  · rw [optSpec_congr op t (translate c t) (by simp [translate]) (msd_translate c t)]; simp [translate]
  · rw [optSpec_congr op t (mirror t) (by simp [mirror]) (msd_mirror t)]; simp [mirror]
  · rw [optSpec_congr op t (frameShift k t) (by simp [frameShift]) (msd_frame_shift k t)]; simp [frameShift]

/-- **optimal_points_scale.** Scaling the positions by `a ≠ 0` (another pixel size, another length unit) does not change
    the number of lags the heuristic arrives at: the localisation error `intercept / slope` and the signs it branches on
    are scale free. -/
theorem optimal_points_scale (op : OptPts) (a : Rat) (ha : a ≠ 0) (t : List Pt) :
    detOpt op (scale a t) = detOpt op t := by
  simp only [optimal_points_cache]
  rw [optSpec_scale op t (scale a t) (a ^ 2) (lt_of_le_of_ne (sq_nonneg a) (Ne.symm (pow_ne_zero 2 ha)))
    (by simp [scale]) (msd_scale a t)]
  simp [scale]

example : (3 : Rat) ≠ 0 := by norm_num

/-- `_diffusion_ols` through `estimate_diffusion_constant_simple`: a numeric answer is the least-squares line through the
    first `max_lag` MSD points, `D = slope / (2 dt)`, localisation variance `= intercept / 2`. -/
theorem ols_estimate_def (t : List Pt) (dt : Rat) (L : Int) (e : Est) (h : olsEstimate t dt L = .ok e) :
    2 ≤ L ∧ olsDen (ptsOf (msdCounts t (some L))) ≠ 0 ∧
    e.value = (olsLine (ptsOf (msdCounts t (some L)))).2 * (1 / (2 * dt)) ∧
    e.lv = (olsLine (ptsOf (msdCounts t (some L)))).1 / 2 := by
  unfold olsEstimate at h
  split at h
  · cases h
  · rename_i hL
    unfold olsFromRows at h
    simp only at h
    split at h
    · cases h
    · rename_i hd
      cases h
      exact ⟨by omega, hd, rfl, rfl⟩

theorem exists_ok_of_toBool {ε α} (x : Except ε α) (h : x.toBool = true) : ∃ a, x = .ok a := by
  cases x with
  | error e => simp [Except.toBool] at h
  | ok a => exact ⟨a, rfl⟩

example : ∃ e, olsEstimate [(0, 0), (1, 1), (2, 3), (4, 2)] 1 2 = .ok e :=
  exists_ok_of_toBool _ (by decide +kernel)

/-- **ols_auto_def.** With `max_lag=None` the reported number of lags `k` is the one `determine_optimal_points` returns,
    and slope / intercept are the ordinary least-squares line through exactly the first `k` MSD points (normal equations,
    minimal sum of squared residuals), `D = slope / (2 dt)`, localisation variance `= intercept / 2`. -/
theorem ols_auto_def (op : OptPts) (t : List Pt) (dt : Rat) (e : Est) (k : Nat) (h : olsAuto op t dt = .ok (e, k)) :
    (∃ ki, detOpt op t = .ok (k, ki)) ∧ olsEstimate t dt k = .ok e ∧
    ∃ pts a b, pts = ptsOf (msdCounts t (some (k : Int))) ∧ (a, b) = olsLine pts ∧
      e.value = b * (1 / (2 * dt)) ∧ e.lv = a / 2 ∧
      resSum pts a b = 0 ∧ resLagSum pts a b = 0 ∧ ∀ a' b', sse pts a b ≤ sse pts a' b' := by
  unfold olsAuto at h
  cases hd : detOpt op t with
  | error x => rw [hd] at h; cases h
  | ok kk =>
    rw [hd] at h
    simp only at h
    cases he : olsEstimate t dt (kk.1 : Int) with
    | error x => rw [he] at h; cases h
    | ok e' =>
      rw [he] at h
      simp only [Except.map, Except.ok.injEq, Prod.mk.injEq] at h
      obtain ⟨rfl, rfl⟩ := h
      obtain ⟨_, hden, hv, hl⟩ := ols_estimate_def t dt _ _ he
      refine ⟨⟨kk.2, rfl⟩, he, _, _, _, rfl, rfl, hv, hl, ?_, ?_, ?_⟩
      · exact (ols_normal_equations _ hden).1
      · exact (ols_normal_equations _ hden).2
      · exact ols_minimises _ hden

/-- non-vacuity: a 6-point track on which the search (with the `optimal_points` that always answers 2 lags) succeeds -/
example : ∃ r, olsAuto (fun _ _ => .ok (2, 2)) [(0, 0), (1, 1), (2, 3), (3, 2), (4, 4), (5, 3)] 1 = .ok r :=
  exists_ok_of_toBool _ (by decide +kernel)

/-- with `max_lag=None` the OLS estimate AND the number of lags it reports are invariant under translating / mirroring
    the positions and shifting the frame indices. -/
theorem ols_auto_invariant (op : OptPts) (t : List Pt) (dt : Rat) (c : Rat) (k : Int) :
    olsAuto op (translate c t) dt = olsAuto op t dt ∧ olsAuto op (mirror t) dt = olsAuto op t dt ∧
    olsAuto op (frameShift k t) dt = olsAuto op t dt := by
  obtain ⟨h1, h2, h3⟩ := optimal_points_invariant op t c k
  unfold olsAuto
  simp only [h1, h2, h3, fun L => (ols_invariant t dt L c k).1, fun L => (ols_invariant t dt L c k).2.1,
    fun L => (ols_invariant t dt L c k).2.2, and_self]

/-- **ols_auto_scale.** Positions scaled by `a ≠ 0`, `max_lag=None`: the same number of lags is chosen, the value and the
    localisation variance scale by `a²`, the squared standard error by `a⁴`; errors are unchanged. -/
theorem ols_auto_scale (op : OptPts) (a : Rat) (ha : a ≠ 0) (t : List Pt) (dt : Rat) :
    olsAuto op (scale a t) dt = (olsAuto op t dt).map fun r =>
      (⟨a ^ 2 * r.1.value, a ^ 4 * r.1.var, a ^ 2 * r.1.lv, r.1.varDefined⟩, r.2) := by
  unfold olsAuto
  rw [optimal_points_scale op a ha t]
  cases detOpt op t with
  | error e => rfl
  | ok k =>
    simp only [ols_scale]
    cases olsEstimate t dt (k.1 : Int) <;> rfl

/-- line time scaled by `c`, `max_lag=None`: the same number of lags, value `/c`, squared standard error `/c²`. -/
theorem ols_auto_time_scale (op : OptPts) (c : Rat) (t : List Pt) (dt : Rat) :
    olsAuto op t (c * dt) = (olsAuto op t dt).map fun r =>
      (⟨r.1.value / c, r.1.var / c ^ 2, r.1.lv, r.1.varDefined⟩, r.2) := by
  unfold olsAuto
  cases detOpt op t with
  | error e => rfl
  | ok k =>
    simp only [ols_time_scale]
    cases olsEstimate t dt (k.1 : Int) <;> rfl


/-- a track without missing frames has the lags `1 … N − 1`: the track length `ensemble_ols` derives from the curve
    (`lags + 1`) is its number of points. -/
theorem contiguous_full (t : List Pt) (h : Contiguous t) (hn : 1 ≤ t.length) :
    (msdCounts t none).length + 1 = t.length := by
  unfold msdCounts lagsOf
  rw [List.length_map, pySliceOpt_none, lagsAll_contiguous t h]
  simp; omega

example : Contiguous [(4, 0), (5, 1), (6, 3), (7, 2), (8, 5)] := ⟨4, by decide⟩

/-- **ensemble_identical_auto.** `max_lag=None` on both sides: for a track with at least 5 points whose MSD curve has
    `N − 1` lags (no missing frames: `contiguous_full` below) the ensemble of `k ≥ 2` identical copies goes through
    `_determine_optimal_points_ensemble` on the ensemble curve with `lags + 1` for the track length, the single track through
    `determine_optimal_points` with its cache — and both arrive at the same number of lags, the same diffusion constant and
    the same localisation variance (or the same error).  For every `optimal_points` function that answers at least 2. -/
theorem ensemble_identical_auto (op : OptPts) (hop : AtLeastTwo op) (t : List Pt) (dt : Rat) (k : Nat) (hk : 2 ≤ k)
    (h5 : 5 ≤ t.length) (hfull : (msdCounts t none).length + 1 = t.length) :
    (ensembleOlsAuto op (List.replicate k t) dt).map (fun r => (r.1.value, r.1.lv, r.2)) =
      (olsAuto op t dt).map (fun r => (r.1.value, r.1.lv, r.2)) := by
  have hne : msdCounts t none ≠ [] := by
    intro h; rw [h] at hfull; simp at hfull; omega
  have h4 : ¬ t.length ≤ 4 := by omega
  have hpts : ((msdCounts t none).map fun r => (⟨r.lag, ⟨r.msd, 0, k * r.count, k⟩⟩ : EnsRow)).map
      (fun r => ((r.lag : Rat), r.st.mean)) = ptsOf (msdCounts t none) := by
    simp only [ptsOf, List.map_map, Function.comp_def]
  unfold ensembleOlsAuto olsAuto
  rw [ensemble_identical_msd t none k hk 2 (by exact_mod_cast hk) hne]
  simp only [hpts, List.length_map, hfull]
  unfold detOptEns
  have hspec := optLoopEns_eq_spec op t h4 100 (max 2 (t.length / 10), max 2 (t.length / 10)) []
  simp only at hspec
  rw [hspec, ← optimal_points_cache]
  cases hd : detOpt op t with
  | error e => rfl
  | ok kk =>
    have h2 : 2 ≤ kk.1 := by
      rw [optimal_points_cache] at hd
      exact optSpec_ge_two op hop t _ _ _ _ (Nat.le_max_left _ _) hd
    simp only [Except.map]
    unfold olsEstimate
    rw [if_neg (by omega)]
    have hv := olsFromRows_value (msdCounts t (some (kk.1 : Int))) 
      ((((msdCounts t none).map fun r => (⟨r.lag, ⟨r.msd, 0, k * r.count, k⟩⟩ : EnsRow)).take kk.1).map
        fun r => (⟨r.lag, r.st.mean, 0⟩ : MsdRow)) t.length t.length dt 1
      (mean (((msdCounts t none).map fun r => (⟨r.lag, ⟨r.msd, 0, k * r.count, k⟩⟩ : EnsRow)).map (·.st.ess))) true false
      (by simp only [ptsOf, msdCounts_some_eq_take, ← List.map_take, List.map_map, Function.comp_def])
    generalize olsFromRows (msdCounts t (some (kk.1 : Int))) t.length dt true 1 = x at hv ⊢
    generalize olsFromRows _ t.length dt false _ = y at hv ⊢
    cases x <;> cases y <;> simp_all [Except.map]

example : AtLeastTwo optimalPointsF ∧ (2 : Nat) ≤ 3 ∧ 5 ≤ [((4 : Int), (0 : Rat)), (5, 1), (6, 3), (7, 2), (8, 5)].length ∧
    (msdCounts [(4, 0), (5, 1), (6, 3), (7, 2), (8, 5)] none).length + 1 = [((4 : Int), (0 : Rat)), (5, 1), (6, 3), (7, 2), (8, 5)].length :=
  ⟨optimalPointsF_atLeastTwo, by decide, by decide, by decide +kernel⟩

/-- the hypothesis is needed: with a missing frame (5 points on frames 0,1,2,3,5: 5 lags, `lags + 1 = 6`) an
    `optimal_points` that depends on the track length (here: half of it) gives 2 lags for the track but 3 for the ensemble
    of two copies of it (kernel-checked). -/
example :
    (olsAuto (fun _ n => .ok (n / 2, 2)) [(0, 0), (1, 1), (2, 3), (3, 2), (5, 5)] 1).map (·.2) = .ok 2 ∧
    (ensembleOlsAuto (fun _ n => .ok (n / 2, 2)) (List.replicate 2 [(0, 0), (1, 1), (2, 3), (3, 2), (5, 5)]) 1).map (·.2)
      = .ok 3 := by
  constructor <;> decide +kernel


/-! ## GLS: one step of the fixed-point iteration -/

/-- **gls_normal_equations.** One step of the GLS iteration returns the line that solves the weighted normal equations
    `Σ W[r,c]·res_c = 0`, `Σ (r+1)·W[r,c]·res_c = 0` for the given inverse covariance matrix `W` (symmetric, as the inverse of
    the symmetric matrix `_msd_diffusion_covariance` returns: `covEntry_symm`) — the generalised least-squares line. -/
theorem gls_normal_equations (W : List (List Rat)) (msd : List Rat) (a b : Rat)
    (hden : glsKappa W * glsMu W - glsLam W * glsLam W ≠ 0) (hsym : glsLamT W = glsLam W) :
    glsRes W msd (glsUpdate W msd a b).intercept (glsUpdate W msd a b).slope = 0 ∧
    glsResLag W msd (glsUpdate W msd a b).intercept (glsUpdate W msd a b).slope = 0 := by
  rw [glsRes_eq, glsResLag_eq, hsym]
  simp only [glsUpdate]
  generalize glsKappa W = k at *
  generalize glsLam W = l at *
  generalize glsMu W = m at *
  generalize glsNu W msd = n
  generalize glsXi W msd = x
  have e (p : Rat) : p * (1 / (k * m - l * l)) = p / (k * m - l * l) := by ring
  rw [e, e]
  constructor
  · rw [sub_sub, sub_eq_zero, div_mul_eq_mul_div, div_mul_eq_mul_div, ← add_div, eq_div_iff hden]; ring
  · rw [sub_sub, sub_eq_zero, div_mul_eq_mul_div, div_mul_eq_mul_div, ← add_div, eq_div_iff hden]; ring

theorem covEntry_symm (n a b : Rat) (i j : Nat) : covEntry n a b i j = covEntry n a b j i := by
  simp only [covEntry, Nat.min_comm j i, add_comm (j : Rat) (i : Rat), mul_comm (n - (j : Rat) + 1), eq_comm (a := j) (b := i)]
  have e1 : n + 1 - (i : Rat) - j = n + 1 - j - i := by ring
  have e2 : n - (i : Rat) - j + 1 = n - j - i + 1 := by ring
  have e3 : 3 * (i : Rat) * j = 3 * j * i := by ring
  rw [e1, e2, e3]

example : glsKappa [[2, 1], [1, 3]] * glsMu [[2, 1], [1, 3]] - glsLam [[2, 1], [1, 3]] * glsLam [[2, 1], [1, 3]] ≠ 0 ∧
    glsLamT [[2, 1], [1, 3]] = glsLam [[2, 1], [1, 3]] := by
  constructor <;> decide +kernel


/-! ## the dispatcher `KymoTrack.estimate_diffusion` — for EVERY `optimal_points` and EVERY `_diffusion_gls` function -/

/-- **estimate_max_lag_zero.** `max_lag=0` is treated exactly like `max_lag=None` (the code tests `if max_lag`). -/
theorem estimate_max_lag_zero (op : OptPts) (glsFn : GlsFn) (t : List Pt) (dt R : Rat) (method : String)
    (lv vlv : Option Rat) :
    estimateDiffusion op glsFn t dt R method (some 0) lv vlv = estimateDiffusion op glsFn t dt R method none lv vlv := by
  unfold estimateDiffusion
  simp

/-- **estimate_dispatch_cve.** `method="cve"` is `_cve` with the kymograph's blur constant, whatever `max_lag` is. -/
theorem estimate_dispatch_cve (op : OptPts) (glsFn : GlsFn) (t : List Pt) (dt R : Rat) (L : Option Int)
    (lv vlv : Option Rat) :
    estimateDiffusion op glsFn t dt R "cve" L lv vlv =
      (cve t dt R lv vlv).map fun c => (⟨c.D, c.var, c.lv, true⟩, none) := by
  unfold estimateDiffusion
  simp

/-- **estimate_dispatch_ols.** `method="ols"` without a localisation variance: an explicit non-zero `max_lag` gives
    `olsEstimate` with that `max_lag`; `None` gives `olsAuto` (the number of lags of `determine_optimal_points`). -/
theorem estimate_dispatch_ols (op : OptPts) (glsFn : GlsFn) (t : List Pt) (dt R : Rat) :
    (∀ L : Int, L ≠ 0 → estimateDiffusion op glsFn t dt R "ols" (some L) none none =
      (olsEstimate t dt L).map fun e => (e, some L)) ∧
    estimateDiffusion op glsFn t dt R "ols" none none none =
      (olsAuto op t dt).map fun r => (r.1, some (r.2 : Int)) := by
  constructor
  · intro L hL
    unfold estimateDiffusion estimateSimple olsEstimate
    simp [hL]
  · have h1 : ("ols" : String) ≠ "cve" := by decide
    have h2 : ("ols" : String) ≠ "gls" := by decide
    unfold estimateDiffusion olsAuto estimateSimple olsEstimate
    simp only [h1, h2, ne_eq, not_true_eq_false, not_false_eq_true, and_false, if_false, if_true,
      Option.isSome_none, Bool.false_eq_true, or_self, decide_false]
    cases detOpt op t with
    | error e => rfl
    | ok k =>
      simp only [Except.map]
      by_cases hk : (k.1 : Int) < 2
      · simp only [hk, if_true]
      · simp only [hk, if_false]
        cases olsFromRows (msdCounts t (some (k.1 : Int))) t.length dt true 1 <;> rfl

/-- **estimate_rejects.** The error branches, in the order the code takes them: an unknown method is a `ValueError`; a
    localisation variance (or its variance) with an MSD-based method is a `NotImplementedError` before anything is computed;
    `max_lag < 2` (explicit, non-zero) is a `ValueError` before GLS looks at missing frames; GLS refuses missing frames. -/
theorem estimate_rejects (op : OptPts) (glsFn : GlsFn) (t : List Pt) (dt R : Rat) (L : Option Int) (lv vlv : Option Rat) :
    (∀ m : String, m ≠ "cve" → m ≠ "gls" → m ≠ "ols" → estimateDiffusion op glsFn t dt R m L lv vlv = .error "ValueError") ∧
    (∀ m : String, m = "ols" ∨ m = "gls" → lv.isSome ∨ vlv.isSome →
      estimateDiffusion op glsFn t dt R m L lv vlv = .error "NotImplementedError") ∧
    (∀ m : String, m = "ols" ∨ m = "gls" → ∀ l : Int, l ≠ 0 → l < 2 →
      estimateDiffusion op glsFn t dt R m (some l) none none = .error "ValueError") ∧
    (∀ l : Int, 2 ≤ l → hasGap t = true → estimateDiffusion op glsFn t dt R "gls" (some l) none none = .error "RuntimeError") := by
  refine ⟨?_, ?_, ?_, ?_⟩
  · intro m h1 h2 h3
    unfold estimateDiffusion
    simp [h1, h2, h3]
  · intro m hm hl
    unfold estimateDiffusion
    rcases hm with rfl | rfl <;> simp [hl]
  · intro m hm l h0 h2
    unfold estimateDiffusion estimateSimple
    rcases hm with rfl | rfl <;> simp [h0, h2, Except.map]
  · intro l h2 hg
    unfold estimateDiffusion estimateSimple
    have : l ≠ 0 := by omega
    have h2' : ¬ l < 2 := by omega
    simp [this, h2', hg, Except.map]

/-- non-vacuity of the branches of `estimate_rejects` (kernel-checked instances) -/
example : hasGap [(0, 0), (2, 1), (3, 0)] = true ∧
    estimateDiffusion optimalPointsF glsUnmodelled [(0, 0), (2, 1), (3, 0)] 1 0 "gls" (some 2) none none = .error "RuntimeError" ∧
    estimateDiffusion optimalPointsF glsUnmodelled [(0, 0), (2, 1), (3, 0)] 1 0 "ols" (some 1) none none = .error "ValueError" ∧
    estimateDiffusion optimalPointsF glsUnmodelled [(0, 0), (2, 1), (3, 0)] 1 0 "ols" (some 2) (some 1) none
      = .error "NotImplementedError" ∧
    estimateDiffusion optimalPointsF glsUnmodelled [(0, 0), (2, 1), (3, 0)] 1 0 "mse" none none none = .error "ValueError" := by
  refine ⟨by decide, ?_, ?_, ?_, ?_⟩ <;> decide +kernel

/-- **estimate_invariant.** Every method (cve, ols, gls — the latter for any `_diffusion_gls` that is a function of the MSD
    curve and the number of points), every option combination, every error branch: translating / mirroring the positions and
    shifting the frame indices changes nothing. -/
theorem estimate_invariant (op : OptPts) (glsFn : GlsFn) (t : List Pt) (dt R : Rat) (method : String) (L : Option Int)
    (lv vlv : Option Rat) (c : Rat) (k : Int) :
    estimateDiffusion op glsFn (translate c t) dt R method L lv vlv = estimateDiffusion op glsFn t dt R method L lv vlv ∧
    estimateDiffusion op glsFn (mirror t) dt R method L lv vlv = estimateDiffusion op glsFn t dt R method L lv vlv ∧
    estimateDiffusion op glsFn (frameShift k t) dt R method L lv vlv = estimateDiffusion op glsFn t dt R method L lv vlv := by
  obtain ⟨o1, o2, o3⟩ := optimal_points_invariant op t c k
  have g1 : hasGap (translate c t) = hasGap t := hasGap_map (fun p => (p.1, p.2 + c)) id (fun _ => rfl) (fun _ _ => rfl) t
  have g2 : hasGap (mirror t) = hasGap t := hasGap_map (fun p => (p.1, -p.2)) id (fun _ => rfl) (fun _ _ => rfl) t
  have g3 : hasGap (frameShift k t) = hasGap t := hasGap_map (fun p => (p.1 + k, p.2)) (· + k) (fun _ => rfl) (fun a b => by omega) t
  have l1 : (translate c t).length = t.length := by simp [translate]
  have l2 : (mirror t).length = t.length := by simp [mirror]
  have l3 : (frameShift k t).length = t.length := by simp [frameShift]
  unfold estimateDiffusion estimateSimple
  simp only [cve_translate, cve_mirror, cve_frame_shift, msd_translate, msd_mirror, msd_frame_shift, o1, o2, o3, g1, g2, g3,
    l1, l2, l3, and_self]



/-! ## GLS: the iteration -/

/-- **gls_result_def.** Whatever matrix inverse `inv` and state rounding `rnd` are used: a numeric answer of the GLS
    iteration is either the fallback (the OLS line through the first two MSD points: singular covariance matrix, or 100
    iterations without convergence), or the (rounded) output of ONE update step `glsUpdate W msd a b` for the inverse `W` of
    the covariance matrix of the PREVIOUS estimate `(a, b)`, and that step moved the estimate by less than the tolerance —
    so (by `gls_normal_equations`, for symmetric `W`) the unrounded line solves the weighted normal equations. -/
theorem gls_result_def (inv : List (List Rat) → Option (List (List Rat))) (rnd : Rat → Rat) (rows : List MsdRow)
    (msd : List Rat) (n : Nat) : ∀ (fuel : Nat) (a b : Rat) (r : Rat × Rat × Rat),
    glsLoop inv rnd rows msd n fuel a b = .ok r →
    glsFallback rows n = .ok r ∨
    ∃ a0 b0 W, inv (covMatrix msd.length (n : Rat) a0 b0) = some W ∧
      glsKappa W * glsMu W - glsLam W * glsLam W ≠ 0 ∧
      r = (rnd (glsUpdate W msd a0 b0).intercept, rnd (glsUpdate W msd a0 b0).slope, (glsUpdate W msd a0 b0).varSlope) ∧
      rabs (r.1 - a0) + rabs (r.2.1 - b0) < glsTol
  | 0, _, _, r, h => Or.inl h
  | fuel + 1, a, b, r, h => by
    simp only [glsLoop] at h
    split at h
    · exact Or.inl h
    · rename_i W hW
      split at h
      · cases h
      · rename_i hden
        split at h
        · rename_i hch
          simp only [Except.ok.injEq] at h
          subst h
          exact Or.inr ⟨a, b, W, hW, hden, rfl, hch⟩
        · exact gls_result_def inv rnd rows msd n fuel _ _ r h

/-- non-vacuity: one converging run (kernel-checked; exact inverse, no rounding) -/
example : (glsLoop matInv id [] [1, 2, 3] 4 100 0 1).toBool = true := by decide +kernel

/-- line time scaled by `c` (OLS with an explicit `max_lag` and GLS, any `_diffusion_gls` function): value `/c`, squared
    standard error `/c²`, localisation variance unchanged, errors unchanged. -/
theorem estimate_simple_time_scale (glsFn : GlsFn) (c : Rat) (t : List Pt) (dt : Rat) (L : Int) (gls : Bool) :
    estimateSimple glsFn t (c * dt) L gls =
      (estimateSimple glsFn t dt L gls).map fun e => ⟨e.value / c, e.var / c ^ 2, e.lv, e.varDefined⟩ := by
  unfold estimateSimple
  split
  · rfl
  · cases gls with
    | true =>
      simp only [if_true]
      split
      · rfl
      · cases glsFn (msdCounts t (some L)) t.length with
        | error e => rfl
        | ok r =>
          simp only [Except.map, Except.ok.injEq, Est.mk.injEq, sqr, and_true]
          refine ⟨by ring, by ring⟩
    | false =>
      have := ols_time_scale c t dt L
      unfold olsEstimate at this
      rename_i h2
      simp only [h2, if_false] at this
      simpa using this

/-! ## Strengthening round H: iteration budget, kymograph kinds, mixed groups -/

/-- `determine_optimal_points` with its default budget and integer frame indices is `detOpt` (the search every other
    theorem is about); `detOptIter` only adds the storage check and the budget. -/
theorem det_opt_iter_default (op : OptPts) (t : List Pt) : detOptIter op t true 100 = detOpt op t := rfl

/-- frame indices that are not stored as integers are refused before anything is computed -/
theorem det_opt_iter_float (op : OptPts) (t : List Pt) (k : Nat) : detOptIter op t false k = .error "TypeError" := rfl

/-- a kymograph integrated over disjoint time windows: every valid method is refused -/
theorem estimate_on_kymo_disjoint (op : OptPts) (g : GlsFn) (t : List Pt) (dt : Rat) (m : String) (L : Option Int)
    (lv vlv : Option Rat) (hm : m = "cve" ∨ m = "gls" ∨ m = "ols") :
    estimateOnKymo op g t dt .disjoint m L lv vlv = .error "NotImplementedError" := by
  unfold estimateOnKymo
  rcases hm with h | h | h <;> subst h <;> simp

example : estimateOnKymo optimalPointsT glsUnmodelled [] 1 .disjoint "cve" none none none = .error "NotImplementedError" := by
  decide +kernel

/-- on a kymograph WITHOUT a motion blur constant the covariance-based estimate is still Vestergaard's `D`: it equals the
    `D` of `_cve` for every admissible blur constant `R` (the closed form of `D` does not contain `R`). -/
theorem estimate_on_kymo_noblur_value (op : OptPts) (g : GlsFn) (t : List Pt) (dt R : Rat) (L : Option Int)
    (vlv : Option Rat) (r : Est × Option Int × Bool) (c : Cve)
    (h : estimateOnKymo op g t dt .noBlur "cve" L none vlv = .ok r) (hc : cve t dt R none none = .ok c) :
    r.1.value = c.D := by
  unfold estimateOnKymo at h
  unfold cve cveCore at hc
  simp only [ne_eq, String.reduceEq, not_true_eq_false, false_and, if_false, if_true] at h
  split at hc
  · cases hc
  · split at hc
    · cases hc
    · rename_i h3
      simp only [h3, if_false] at h
      cases h
      cases hc
      rfl

example : (estimateOnKymo optimalPointsT glsUnmodelled [(0, 0), (1, 1), (2, 3)] 1 .noBlur "cve" none none none).toBool = true ∧
    (cve [(0, 0), (1, 1), (2, 3)] 1 (1 / 6) none none).toBool = true := by decide +kernel

end Verif.C09
