/-
  C17 — editing, refining and saving tracks preserve the track data: the property theorems.
  Model: lean/Verif/Model/C17.lean; specification-side definitions (`rowOf`, `reimported`,
  `Track.takeN/dropN`, `StrictInc`, `Collinear`, `segment`) and helper lemmas: lean/Verif/Lemmas/C17.lean.
-/
import Verif.Lemmas.C17
import Verif.Lemmas.C17D

namespace Verif.C17
open Verif.Py

/-! ## saving and loading -/

/-- The columns the code stacks with `np.hstack` and transposes are, read line by line, the nodes of
    track 0 in track order, then those of track 1, …; each line carries its track number, the node,
    its time and position, the sampled count (iff a sampling width was given) and the formatted
    minimum duration (iff every track has one). -/
theorem export_order (k : Kymo) (sample : Option (Int → Rat → Int)) (fmt : Rat → Rat)
    (g : List Track) (hne : g ≠ []) :
    exportRows k sample fmt g = .ok (g.zipIdx.flatMap fun p =>
      p.1.pts.map (rowOf k sample (mdOf fmt (g.all (·.minDur.isSome)) p.1) p.2)) :=
  exportRows_eq k sample fmt g hne

example : exportRows ⟨1 / 10, some (1 / 10), 1 / 8⟩ none id [⟨[(3, 3 / 2)], none, none⟩]
    = .ok [⟨0, 3, 3 / 2, 3 / 8, 3 / 20, none, none⟩] := by decide +kernel

/-- an empty group is refused (`RuntimeError("No kymograph tracks to export")`) -/
theorem export_empty (k : Kymo) (sample : Option (Int → Rat → Int)) (fmt : Rat → Rat) :
    exportRows k sample fmt [] = .error .runtime := rfl

/-- **Round trip.**  For every non-empty group of non-empty tracks (any number of tracks, any number
    of nodes — including one track with one node), saving and importing with the same kymograph
    returns the same tracks in the same order with the same nodes; the photon counts are the ones
    sampled while saving (none without a sampling width); the minimum durations are the saved ones as
    formatted by the text format (none if some track of the group had none). -/
theorem import_export_roundtrip (k : Kymo) (hpx : k.px ≠ 0) (sample : Option (Int → Rat → Int))
    (fmt : Rat → Rat) (g : List Track) (hne : g ≠ []) (hpts : ∀ tr ∈ g, tr.pts ≠ []) :
    roundtrip k sample fmt g = .ok (g.map (reimported sample fmt (g.all (·.minDur.isSome)))) := by
  unfold roundtrip
  rw [exportRows_eq k sample fmt g hne]
  exact importGroup_rowBlocks k hpx sample fmt _ g hne hpts

/-- … and it is the identity when the tracks already carry what the file stores: counts equal to the
    sampled ones (or no counts and no sampling) and minimum durations that the format represents
    exactly (or none at all). -/
theorem import_export_roundtrip_id (k : Kymo) (hpx : k.px ≠ 0) (sample : Option (Int → Rat → Int))
    (fmt : Rat → Rat) (g : List Track) (hne : g ≠ []) (hpts : ∀ tr ∈ g, tr.pts ≠ [])
    (hcounts : ∀ tr ∈ g, tr.counts = sample.map fun s => tr.pts.map fun p => s p.1 p.2)
    (hmd : (∀ tr ∈ g, tr.minDur = none) ∨ (∀ tr ∈ g, ∃ d, tr.minDur = some d ∧ fmt d = d)) :
    roundtrip k sample fmt g = .ok g := by
  rw [import_export_roundtrip k hpx sample fmt g hne hpts]
  congr 1
  conv => rhs; rw [← List.map_id g]
  apply List.map_congr_left
  intro tr htr
  have hc := hcounts tr htr
  unfold reimported mdOf
  rcases hmd with hmd | hmd
  · have hall : g.all (·.minDur.isSome) = false := by
      cases g with
      | nil => exact absurd rfl hne
      | cons t ts => simp [hmd t (by simp)]
    have h1 := hmd tr htr
    cases tr with
    | mk pts md cs =>
      simp only at hc h1
      subst h1 hc
      simp [hall]
  · have hall : g.all (·.minDur.isSome) = true := by
      simp only [List.all_eq_true]
      intro t ht
      obtain ⟨d, hd, _⟩ := hmd t ht
      simp [hd]
    obtain ⟨d, hd, hf⟩ := hmd tr htr
    cases tr with
    | mk pts md cs =>
      simp only at hc hd
      subst hd hc
      simp [hall, hf]

/-- non-vacuity, and the input of finding F4: one track with one node -/
example : roundtrip ⟨1 / 10, some (1 / 10), 1 / 8⟩ none fmt6e [⟨[(3, 3 / 2)], none, none⟩]
    = .ok [⟨[(3, 3 / 2)], none, none⟩] := by decide +kernel

example : roundtrip ⟨3 / 5, some (1 / 10), 1 / 8⟩ (some (sumSignal [[1, 2, 3], [4, 5, 6]] 1 (1 / 2))) fmt6e
      [⟨[(0, 1 / 2), (1, 3 / 2)], some (1 / 4), none⟩, ⟨[(1, 0)], some 0, none⟩]
    = .ok [⟨[(0, 1 / 2), (1, 3 / 2)], some (1 / 4), some [6, 11]⟩, ⟨[(1, 0)], some 0, some [9]⟩] := by
  decide +kernel

/-- **F4 (fixed in /repo, 0ad99d4).**  With the pinned `_read_txt` the file of a group that consists
    of one single-node track cannot be read back (`IndexError`); the repaired import returns the group. -/
theorem F4_witness :
    (match exportRows ⟨1 / 10, some (1 / 10), 1 / 8⟩ none fmt6e [⟨[(3, 3 / 2)], none, none⟩] with
      | .ok rows => importGroupUnfixedF4 ⟨1 / 10, some (1 / 10), 1 / 8⟩ rows
      | .error e => .error e) = .error .index
    ∧ roundtrip ⟨1 / 10, some (1 / 10), 1 / 8⟩ none fmt6e [⟨[(3, 3 / 2)], none, none⟩]
      = .ok [⟨[(3, 3 / 2)], none, none⟩] := by decide +kernel

/-- **F8 (fixed in /repo, b4a4822).**  With the pinned `create_track`, a file with photon counts read
    against a kbp-calibrated kymograph (0.6 kbp = 0.1 µm per pixel) puts the node at pixel 1/4 instead
    of 3/2, and against an uncalibrated kymograph it raises `TypeError`; the repaired import returns
    the saved node in both cases. -/
theorem F8_witness :
    (match exportRows ⟨3 / 5, some (1 / 10), 1 / 8⟩ (some (sumSignal [[1, 2, 3]] 0 (1 / 2))) fmt6e
        [⟨[(0, 3 / 2)], none, none⟩] with
      | .ok rows => importGroupUnfixedF8 ⟨3 / 5, some (1 / 10), 1 / 8⟩ rows
      | .error e => .error e) = .ok [⟨[(0, 1 / 4)], none, some [3]⟩]
    ∧ (match exportRows ⟨1, none, 1 / 8⟩ (some (sumSignal [[1, 2, 3]] 0 (1 / 2))) fmt6e
        [⟨[(0, 3 / 2)], none, none⟩] with
      | .ok rows => importGroupUnfixedF8 ⟨1, none, 1 / 8⟩ rows
      | .error e => .error e) = .error .type
    ∧ roundtrip ⟨3 / 5, some (1 / 10), 1 / 8⟩ (some (sumSignal [[1, 2, 3]] 0 (1 / 2))) fmt6e
        [⟨[(0, 3 / 2)], none, none⟩] = .ok [⟨[(0, 3 / 2)], none, some [3]⟩]
    ∧ roundtrip ⟨1, none, 1 / 8⟩ (some (sumSignal [[1, 2, 3]] 0 (1 / 2))) fmt6e
        [⟨[(0, 3 / 2)], none, none⟩] = .ok [⟨[(0, 3 / 2)], none, some [3]⟩] := by decide +kernel

/-! ## splitting -/

/-- `_split` at a node strictly inside the track returns exactly the first `n` nodes and the rest
    (with their counts and the track's minimum duration). -/
theorem split_spec (tr : Track) (n : Nat) (h0 : 0 < n) (h1 : n < tr.len) :
    tr.split (n : Int) = .ok (tr.takeN n, tr.dropN n) := split_inside tr n h0 h1

example : (⟨[(0, 1), (1, 2), (3, 4)], some 1, some [5, 6, 7]⟩ : Track).split 2
    = .ok (⟨[(0, 1), (1, 2)], some 1, some [5, 6]⟩, ⟨[(3, 4)], some 1, some [7]⟩) := by decide +kernel

/-- any other node (≤ 0 — negative nodes do not wrap — or ≥ length) is refused with `ValueError` -/
theorem split_refused (tr : Track) (node : Int) (h : node ≤ 0 ∨ (tr.len : Int) ≤ node) :
    tr.split node = .error .value := split_outside tr node h

example : (⟨[(0, 1), (1, 2)], none, none⟩ : Track).split (-1) = .error .value := by decide +kernel

/-- **Splitting conserves the track**: whenever `_split` succeeds, both parts are non-empty, their
    concatenation is the original node list (and count list), and the minimum duration is kept. -/
theorem split_conserves (tr : Track) (node : Int) (b a : Track) (h : tr.split node = .ok (b, a)) :
    b.pts ++ a.pts = tr.pts ∧ b.pts ≠ [] ∧ a.pts ≠ [] ∧
    b.minDur = tr.minDur ∧ a.minDur = tr.minDur ∧
    (0 < node ∧ node < tr.len ∧ (b.len : Int) = node) ∧
    (match tr.counts with
     | none => b.counts = none ∧ a.counts = none
     | some c => ∃ cb ca, b.counts = some cb ∧ a.counts = some ca ∧ cb ++ ca = c) := by
  by_cases hin : 0 < node ∧ node < tr.len
  · obtain ⟨n, rfl⟩ : ∃ n : Nat, node = n := ⟨node.toNat, by omega⟩
    have h0 : 0 < n := by omega
    have h1 : n < tr.len := by omega
    rw [split_inside tr n h0 h1] at h
    injection h with h
    injection h with hb ha
    subst hb ha
    unfold Track.len at h1
    refine ⟨List.take_append_drop n tr.pts, ?_, ?_, rfl, rfl, ⟨hin.1, hin.2, ?_⟩, ?_⟩
    · intro hnil
      have := congrArg List.length hnil
      simp only [Track.takeN, List.length_take, List.length_nil] at this
      omega
    · intro hnil
      have := congrArg List.length hnil
      simp only [Track.dropN, List.length_drop, List.length_nil] at this
      omega
    · simp only [Track.takeN, Track.len, List.length_take]; omega
    · cases hc : tr.counts with
      | none => simp [Track.takeN, Track.dropN, hc]
      | some c => exact ⟨c.take n, c.drop n, by simp [Track.takeN, hc], by simp [Track.dropN, hc],
          List.take_append_drop n c⟩
  · rw [split_outside tr node (by omega)] at h
    cases h

example : ∃ b a, (⟨[(0, 1), (1, 2), (3, 4)], none, none⟩ : Track).split 1 = .ok (b, a) :=
  ⟨⟨[(0, 1)], none, none⟩, ⟨[(1, 2), (3, 4)], none, none⟩, by decide +kernel⟩

/-- `_split_track`: the split track is removed, the two parts are appended (each only if it has at
    least `min_length` nodes), every other track of the group is untouched. -/
theorem splitTrack_spec (g : List Track) (i : Nat) (tr : Track) (hi : g[i]? = some tr) (n : Nat)
    (h0 : 0 < n) (h1 : n < tr.len) (minLen : Int) :
    splitTrack g i n minLen
      = .ok (g.eraseIdx i ++ [tr.takeN n, tr.dropN n].filter fun t => decide (minLen ≤ (t.len : Int))) := by
  unfold splitTrack
  simp [hi, split_inside tr n h0 h1]

example : splitTrack [⟨[(0, 1), (1, 2), (3, 4)], none, none⟩, ⟨[(5, 5)], none, none⟩] 0 1 2
    = .ok [⟨[(5, 5)], none, none⟩, ⟨[(1, 2), (3, 4)], none, none⟩] := by decide +kernel

/-- a refused split leaves no new group (the caller's group is unchanged) -/
theorem splitTrack_refused (g : List Track) (i : Nat) (tr : Track) (hi : g[i]? = some tr) (node : Int)
    (h : node ≤ 0 ∨ (tr.len : Int) ≤ node) (minLen : Int) :
    splitTrack g i node minLen = .error .value := by
  unfold splitTrack
  simp [hi, split_outside tr node h]

/-! ## merging -/

/-- what `_merge_tracks` builds: `a` up to and including node `na`, then `b` from node `nb` on -/
def mergedTrack (a b : Track) (na nb : Nat) : Track :=
  ⟨a.pts.take (na + 1) ++ b.pts.drop nb, a.minDur,
   match a.counts, b.counts with
   | some x, some y => some (x.take (na + 1) ++ y.drop nb)
   | _, _ => none⟩

theorem merge_add_eq (a b : Track) (na nb : Nat) :
    (a.slice none (some ((na : Int) + 1))).add (b.slice (some (nb : Int)) none) = mergedTrack a b na nb := by
  have : ((na : Int) + 1) = ((na + 1 : Nat) : Int) := by omega
  rw [this, slice_take, slice_drop]
  unfold Track.add Track.takeN Track.dropN mergedTrack
  cases a.counts <;> cases b.counts <;> simp

/-- **Merging conserves what it does not discard.**  Connecting node `ni` of track `i` (earlier scan
    line) with node `nj` of track `j` (later scan line) replaces track `i` by its nodes up to and
    including `ni` followed by the nodes of track `j` from `nj` on, removes track `j` (if it is a
    different track) and touches nothing else. -/
theorem merge_conserves_undiscarded (g : List Track) (i j ni nj : Nat) (a b : Track) (pa pb : Pt)
    (ha : g[i]? = some a) (hb : g[j]? = some b) (hpa : a.pts[ni]? = some pa) (hpb : b.pts[nj]? = some pb)
    (hlt : pa.1 < pb.1) :
    mergeTracks g i ni j nj
      = .ok (if i = j then g.set i (mergedTrack a b ni nj)
             else (g.set i (mergedTrack a b ni nj)).eraseIdx j) := by
  unfold mergeTracks
  simp only [ha, hb, pyIndex_nat, hpa, hpb]
  have h1 : ¬ pa.1 = pb.1 := by omega
  have h2 : ¬ pa.1 > pb.1 := by omega
  simp only [h1, h2, if_false, decide_false, Bool.false_eq_true, merge_add_eq]

example : mergeTracks [⟨[(0, 1), (1, 2), (2, 3)], some 1, none⟩, ⟨[(4, 5), (6, 7), (7, 8)], none, none⟩] 0 1 1 1
    = .ok [⟨[(0, 1), (1, 2), (6, 7), (7, 8)], some 1, none⟩] := by decide +kernel

/-- the arguments may be given in either order: the earlier node always becomes the start -/
theorem merge_symmetric (g : List Track) (i j ni nj : Nat) (a b : Track) (pa pb : Pt)
    (ha : g[i]? = some a) (hb : g[j]? = some b) (hpa : a.pts[ni]? = some pa) (hpb : b.pts[nj]? = some pb)
    (hgt : pb.1 < pa.1) :
    mergeTracks g i ni j nj = mergeTracks g j nj i ni := by
  unfold mergeTracks
  simp only [ha, hb, pyIndex_nat, hpa, hpb]
  have h1 : ¬ pa.1 = pb.1 := by omega
  have h1' : ¬ pb.1 = pa.1 := by omega
  have h2 : pa.1 > pb.1 := by omega
  have h3 : ¬ pb.1 > pa.1 := by omega
  simp only [h1, h1', h2, h3, if_false, if_true, decide_true, decide_false, Bool.false_eq_true]

example : mergeTracks [⟨[(4, 5), (6, 7)], none, none⟩, ⟨[(0, 1), (1, 2)], some 1, none⟩] 0 1 1 0
    = .ok [⟨[(0, 1), (6, 7)], some 1, none⟩] := by decide +kernel

/-- two nodes on the same scan line cannot be connected (`ValueError`) -/
theorem merge_same_frame_refused (g : List Track) (i j ni nj : Nat) (a b : Track) (pa pb : Pt)
    (ha : g[i]? = some a) (hb : g[j]? = some b) (hpa : a.pts[ni]? = some pa) (hpb : b.pts[nj]? = some pb)
    (heq : pa.1 = pb.1) :
    mergeTracks g i ni j nj = .error .value := by
  unfold mergeTracks
  simp only [ha, hb, pyIndex_nat, hpa, hpb, heq, if_true]

example : mergeTracks [⟨[(4, 5)], none, none⟩, ⟨[(4, 1)], none, none⟩] 0 0 1 0 = .error .value := by
  decide +kernel

/-- no other track changes: every track of the group other than the two that were connected is
    still a member of the result, and the result has one track fewer (none fewer when a track is
    connected with itself). -/
theorem merge_others_unchanged (g : List Track) (i j ni nj : Nat) (a b : Track) (pa pb : Pt)
    (ha : g[i]? = some a) (hb : g[j]? = some b) (hpa : a.pts[ni]? = some pa) (hpb : b.pts[nj]? = some pb)
    (hlt : pa.1 < pb.1) :
    ∃ r, mergeTracks g i ni j nj = .ok r ∧
      r.length = (if i = j then g.length else g.length - 1) ∧
      ∀ m tr, m ≠ i → m ≠ j → g[m]? = some tr → tr ∈ r := by
  refine ⟨_, merge_conserves_undiscarded g i j ni nj a b pa pb ha hb hpa hpb hlt, ?_, ?_⟩
  · have hj : j < g.length := by
      rcases List.getElem?_eq_some_iff.1 hb with ⟨h, _⟩; exact h
    split
    · simp
    · rw [List.length_eraseIdx]; simp [hj]
  · intro m tr hmi hmj hm
    have hset : (g.set i (mergedTrack a b ni nj))[m]? = some tr := by
      rw [List.getElem?_set_ne (Ne.symm hmi)]; exact hm
    split
    · exact List.mem_of_getElem? hset
    · rw [List.mem_eraseIdx_iff_getElem?]
      exact ⟨m, hmj, hset⟩

/-- if both tracks have strictly increasing scan lines, so has the merged track -/
theorem merge_sorted (a b : Track) (na nb : Nat) (pa pb : Pt) (hpa : a.pts[na]? = some pa)
    (hpb : b.pts[nb]? = some pb) (hlt : pa.1 < pb.1) (hsa : StrictInc a.pts) (hsb : StrictInc b.pts) :
    StrictInc (mergedTrack a b na nb).pts := by
  unfold StrictInc mergedTrack at *
  simp only
  rw [List.pairwise_append]
  refine ⟨hsa.sublist (List.take_sublist _ _), hsb.sublist (List.drop_sublist _ _), ?_⟩
  intro x hx y hy
  -- x is at an index ≤ na in a, y at an index ≥ nb in b
  obtain ⟨ix, hix, rfl⟩ := List.mem_iff_getElem.1 hx
  obtain ⟨iy, hiy, rfl⟩ := List.mem_iff_getElem.1 hy
  simp only [List.length_take, List.length_drop] at hix hiy
  rw [List.getElem_take, List.getElem_drop]
  obtain ⟨hna, hpa'⟩ := List.getElem?_eq_some_iff.1 hpa
  obtain ⟨hnb, hpb'⟩ := List.getElem?_eq_some_iff.1 hpb
  have h1 : (a.pts[ix]).1 ≤ pa.1 := by
    rcases Nat.lt_or_ge ix na with h | h
    · have := List.pairwise_iff_getElem.1 hsa ix na (by omega) hna h
      rw [hpa'] at this; omega
    · have : ix = na := by omega
      subst this; rw [hpa']
  have h2 : pb.1 ≤ (b.pts[nb + iy]).1 := by
    rcases Nat.eq_zero_or_pos iy with h | h
    · subst h; simp only [Nat.add_zero]; rw [hpb']
    · have := List.pairwise_iff_getElem.1 hsb nb (nb + iy) hnb (by omega) (by omega)
      rw [hpb'] at this; omega
  omega

/-! ## filtering -/

/-- **`filter_tracks` keeps exactly the tracks meeting both thresholds**, in their original order,
    with their nodes and counts untouched, and raises each kept track's minimum observable duration
    to `max(old or 0, (L−1)·line_time, ⌈D/line_time⌉·line_time)`. -/
theorem filter_spec (lt : Rat) (L : Int) (D : Rat) (g : List Track) :
    filterTracks lt L D g
      = (g.filter fun tr => decide (L ≤ (tr.len : Int) ∧ D ≤ tr.duration lt)).map fun tr =>
          ⟨tr.pts, some (max (tr.minDur.getD 0) (max (((L - 1 : Int) : Rat) * lt) (((D / lt).ceil : Int) * lt))),
           tr.counts⟩ := by
  unfold filterTracks keepTrack minObservable
  congr 1
  congr 1
  funext tr
  simp [Bool.decide_and]

theorem filter_mem_iff (lt : Rat) (L : Int) (D : Rat) (g : List Track) (pts : List Pt) :
    pts ∈ (filterTracks lt L D g).map (·.pts)
      ↔ ∃ tr ∈ g, tr.pts = pts ∧ L ≤ (tr.len : Int) ∧ D ≤ tr.duration lt := by
  rw [filter_spec]
  simp only [List.map_map, List.mem_map, List.mem_filter, Function.comp, decide_eq_true_eq]
  constructor
  · rintro ⟨tr, ⟨h1, h2⟩, rfl⟩; exact ⟨tr, h1, rfl, h2⟩
  · rintro ⟨tr, h1, rfl, h2⟩; exact ⟨tr, ⟨h1, h2⟩, rfl⟩

/-- filtering neither reorders nor edits: the node lists that remain are a sublist of the original ones -/
theorem filter_sublist (lt : Rat) (L : Int) (D : Rat) (g : List Track) :
    ((filterTracks lt L D g).map (·.pts)).Sublist (g.map (·.pts)) := by
  rw [filter_spec, List.map_map]
  exact (List.filter_sublist (l := g)).map _

/-- the new minimum is never below the old one (“we can't unfilter tracks”) and never below either
    threshold's bound -/
theorem filter_raises_minimum (lt : Rat) (L : Int) (D : Rat) (g : List Track) (tr' : Track)
    (h : tr' ∈ filterTracks lt L D g) :
    ∃ tr ∈ g, tr'.pts = tr.pts ∧ ∃ m, tr'.minDur = some m ∧ tr.minDur.getD 0 ≤ m ∧
      ((L - 1 : Int) : Rat) * lt ≤ m ∧ ((D / lt).ceil : Int) * lt ≤ m := by
  rw [filter_spec] at h
  simp only [List.mem_map, List.mem_filter] at h
  obtain ⟨tr, ⟨htr, _⟩, rfl⟩ := h
  refine ⟨tr, htr, rfl, _, rfl, le_max_left _ _, ?_, ?_⟩
  · exact le_trans (le_max_left _ _) (le_max_right _ _)
  · exact le_trans (le_max_right _ _) (le_max_right _ _)

theorem span_ge_length (p : Pt) (ps : List Pt) (h : StrictInc (p :: ps)) :
    (ps.length : Int) ≤ ((p :: ps).getLast (by simp)).1 - p.1 := by
  induction ps generalizing p with
  | nil => simp
  | cons q rest ih =>
    have hpq : p.1 < q.1 := (List.pairwise_cons.1 h).1 q (by simp)
    have := ih q (List.pairwise_cons.1 h).2
    simp only [List.getLast_cons_cons, List.length_cons] at *
    omega

/-- **the raised minimum is a true lower bound**: every track that passes the filter (with strictly
    increasing scan lines, positive line time) lasts at least `max((L−1)·line_time, ⌈D/line_time⌉·line_time)`,
    the amount by which its minimum observable duration is raised. -/
theorem filter_min_observable_sound (lt : Rat) (hlt : 0 < lt) (L : Int) (D : Rat) (tr : Track)
    (hne : tr.pts ≠ []) (hs : StrictInc tr.pts) (hk : keepTrack lt L D tr = true) :
    minObservable lt L D ≤ tr.duration lt := by
  unfold keepTrack at hk
  simp only [Bool.and_eq_true, decide_eq_true_eq] at hk
  obtain ⟨hL, hD⟩ := hk
  cases hp : tr.pts with
  | nil => exact absurd hp hne
  | cons p ps =>
    rw [hp] at hs
    have hspan := span_ge_length p ps hs
    have hdur : tr.duration lt = lt * ((((p :: ps).getLast (by simp)).1 - p.1 : Int) : Rat) := by
      unfold Track.duration
      rw [hp]
      simp only [List.head?_cons, Option.map_some, Option.getD_some, List.getLast?_eq_some_getLast (l := p :: ps) (by simp)]
      push_cast
      ring
    rw [hdur] at hD ⊢
    generalize hk' : (((p :: ps).getLast (by simp)).1 - p.1 : Int) = k at *
    have hlen : (tr.len : Int) = ps.length + 1 := by simp [Track.len, hp]
    unfold minObservable
    apply max_le
    · have h1 : L - 1 ≤ k := by omega
      have h2 : ((L - 1 : Int) : Rat) ≤ (k : Rat) := by exact_mod_cast h1
      calc ((L - 1 : Int) : Rat) * lt ≤ (k : Rat) * lt := by
            exact mul_le_mul_of_nonneg_right h2 (le_of_lt hlt)
        _ = lt * (k : Rat) := by ring
    · have h1 : D / lt ≤ (k : Rat) := by
        rw [div_le_iff₀ hlt]; linarith
      have h2 : (D / lt).ceil ≤ k := Rat.ceil_le_iff.2 h1
      have h3 : (((D / lt).ceil : Int) : Rat) ≤ (k : Rat) := by exact_mod_cast h2
      calc (((D / lt).ceil : Int) : Rat) * lt ≤ (k : Rat) * lt := by
            exact mul_le_mul_of_nonneg_right h3 (le_of_lt hlt)
        _ = lt * (k : Rat) := by ring

example : keepTrack (1 / 8) 3 (1 / 5) ⟨[(0, 1), (2, 2), (3, 3)], none, none⟩ = true := by decide +kernel

example : filterTracks (1 / 8) 2 (1 / 5)
      [⟨[(0, 1), (1, 2)], none, none⟩, ⟨[(0, 1), (2, 2), (3, 3)], some (1 / 2), some [1, 2, 3]⟩, ⟨[(9, 1)], none, none⟩]
    = [⟨[(0, 1), (2, 2), (3, 3)], some (1 / 2), some [1, 2, 3]⟩] := by decide +kernel

example : filterTracks (1 / 8) 3 (1 / 5) [⟨[(0, 1), (2, 2), (3, 3)], none, none⟩]
    = [⟨[(0, 1), (2, 2), (3, 3)], some (1 / 4), none⟩] := by decide +kernel

/-! ## interpolation -/

theorem tmax_sorted (p : Pt) (ps : List Pt) (h : StrictInc (p :: ps)) :
    tmax (p :: ps) = ((p :: ps).getLast (by simp)).1 := by
  induction ps generalizing p with
  | nil => simp [tmax]
  | cons q rest ih =>
    have hpq : p.1 < q.1 := (List.pairwise_cons.1 h).1 q (by simp)
    rw [tmax_cons_cons p q rest hpq, ih q (List.pairwise_cons.1 h).2]
    simp

/-- the interpolated track has one node on every scan line from the first to the last one -/
theorem interpolate_times (p : Pt) (ps : List Pt) (h : StrictInc (p :: ps)) :
    (interpolate (p :: ps)).map (·.1) = arange p.1 (((p :: ps).getLast (by simp)).1 + 1) := by
  rw [interpolate_times_eq, tmin_sorted p ps h, tmax_sorted p ps h]

/-- **interpolation keeps the original nodes** (same scan line, same coordinate, same order) -/
theorem interpolate_keeps_original (pts : List Pt) (h : StrictInc pts) :
    pts.Sublist (interpolate pts) := by
  induction pts with
  | nil => exact List.nil_sublist _
  | cons p ps ih =>
    cases ps with
    | nil => rw [interpolate_single]
    | cons q rest =>
      have hpq : p.1 < q.1 := (List.pairwise_cons.1 h).1 q (by simp)
      rw [interpolate_cons_cons p q rest h, segment_head p q hpq, List.cons_append]
      exact List.Sublist.cons_cons p
        ((ih (List.pairwise_cons.1 h).2).trans (List.sublist_append_right _ _))

/-- **added nodes lie on the straight segment between their neighbours**: every node of the result
    is an original node, or lies strictly between two consecutive original nodes `p`, `q` on the line
    through them. -/
theorem interpolate_on_segment (pts : List Pt) (h : StrictInc pts) (hne : pts ≠ []) :
    ∀ r ∈ interpolate pts, r ∈ pts ∨
      ∃ l₁ p q l₂, pts = l₁ ++ p :: q :: l₂ ∧ p.1 < r.1 ∧ r.1 < q.1 ∧ Collinear p q r := by
  induction pts with
  | nil => exact absurd rfl hne
  | cons p ps ih =>
    cases ps with
    | nil => intro r hr; rw [interpolate_single] at hr; exact Or.inl hr
    | cons q rest =>
      have hpq : p.1 < q.1 := (List.pairwise_cons.1 h).1 q (by simp)
      intro r hr
      rw [interpolate_cons_cons p q rest h, List.mem_append] at hr
      rcases hr with hr | hr
      · simp only [segment, List.mem_map] at hr
        obtain ⟨x, hx, rfl⟩ := hr
        rw [mem_arange] at hx
        by_cases hxp : x = p.1
        · left
          subst hxp
          have : lin p q p.1 = p.2 := by unfold lin; simp
          rw [this]; simp
        · right
          exact ⟨[], p, q, rest, rfl, by simp only; omega, hx.2, lin_collinear p q x hpq⟩
      · rcases ih (List.pairwise_cons.1 h).2 (by simp) r hr with hm | ⟨l₁, p', q', l₂, he, h1, h2, h3⟩
        · exact Or.inl (List.mem_cons_of_mem _ hm)
        · exact Or.inr ⟨p :: l₁, p', q', l₂, by rw [he]; rfl, h1, h2, h3⟩

example : interpolate [(0, 1), (2, 2), (3, 5)] = [(0, 1), (1, 3 / 2), (2, 2), (3, 5)] := by decide +kernel
example : StrictInc [(0, 1), (2, 2), (3, 5)] := by unfold StrictInc; decide

/-! ## refinement -/

/-- **centroid refinement keeps the number of tracks, fills exactly the scan lines between each
    track's first and last node, and keeps the minimum durations** — whatever the numerical centroid
    estimate `refineCoord` and the image sampler do. -/
theorem refine_fills_span (refineCoord : Int → Rat → Rat) (sample : Int → Rat → Int) (g : List Track) :
    (refineCentroid refineCoord sample g).length = g.length ∧
    ∀ (i : Nat) (tr : Track), g[i]? = some tr → ∃ tr' : Track, (refineCentroid refineCoord sample g)[i]? = some tr' ∧
      tr'.times = arange (tmin tr.pts) (tmax tr.pts + 1) ∧ tr'.minDur = tr.minDur ∧
      ∃ c, tr'.counts = some c ∧ c.length = tr'.len := by
  refine ⟨by simp [refineCentroid], ?_⟩
  intro i tr hi
  let pts' : List Pt := (interpolate tr.pts).map fun p => (p.1, refineCoord p.1 p.2)
  refine ⟨⟨pts', tr.minDur, some (pts'.map fun p => sample p.1 p.2)⟩, ?_, ?_, rfl, _, rfl, ?_⟩
  · simp only [refineCentroid, List.getElem?_map, hi, Option.map_some, pts']
  · simp only [Track.times, pts', List.map_map]
    rw [← interpolate_times_eq tr.pts]
    rfl
  · simp [Track.len]

/-- for tracks with strictly increasing scan lines the span is `[first … last]` -/
theorem refine_span_sorted (p : Pt) (ps : List Pt) (h : StrictInc (p :: ps)) :
    arange (tmin (p :: ps)) (tmax (p :: ps) + 1) = arange p.1 (((p :: ps).getLast (by simp)).1 + 1) := by
  rw [tmin_sorted p ps h, tmax_sorted p ps h]

example : refineSpan [⟨[(2, 1), (5, 2)], none, none⟩, ⟨[(7, 0)], none, none⟩] = [[2, 3, 4, 5], [7]] := by
  decide +kernel

/-- **Gaussian refinement adds no line outside the span**: every returned track stems from an input
    track, has its minimum duration, is non-empty, and all its scan lines lie between that track's
    first and last line (whatever the overlap strategy, window and `refine_missing_frames`); without
    `refine_missing_frames` its lines are a sublist of the input track's own lines. -/
theorem gaussian_within_span (skip : Bool) (w : Int) (missing : Bool) (g : List Track) :
    (gaussianTimes skip w missing g).length ≤ g.length ∧
    ∀ r ∈ gaussianTimes skip w missing g, r.1 ≠ [] ∧ ∃ tr ∈ g, r.2 = tr.minDur ∧
      (∀ t ∈ r.1, tmin tr.pts ≤ t ∧ t ≤ tmax tr.pts) ∧ (missing = false → r.1.Sublist tr.times) := by
  constructor
  · unfold gaussianTimes
    refine le_trans (List.length_filter_le _ _) ?_
    cases missing <;> simp
  · intro r hr
    unfold gaussianTimes at hr
    simp only [List.mem_filter, List.mem_map] at hr
    obtain ⟨⟨p, hp, rfl⟩, hne⟩ := hr
    refine ⟨by simpa using hne, ?_⟩
    have hm : p.1 ∈ (List.zipIdx (if missing = true then g.map Track.interpolate else g)).map Prod.fst :=
      List.mem_map_of_mem hp
    rw [List.zipIdx_map_fst] at hm
    cases missing with
    | false =>
      simp only [Bool.false_eq_true, if_false] at hm
      refine ⟨p.1, hm, rfl, ?_, fun _ => List.filter_sublist⟩
      intro t ht
      have ht' : t ∈ p.1.times := (List.mem_filter.1 ht).1
      simp only [Track.times, List.mem_map] at ht'
      obtain ⟨q, hq, rfl⟩ := ht'
      exact tmin_le_tmax_mem p.1.pts q hq
    | true =>
      simp only [if_true, List.mem_map] at hm
      obtain ⟨tr, htr, hp1⟩ := hm
      refine ⟨tr, htr, by rw [← hp1]; rfl, ?_, fun h => by cases h⟩
      intro t ht
      have ht' : t ∈ p.1.times := (List.mem_filter.1 ht).1
      rw [← hp1] at ht'
      simp only [Track.times, Track.interpolate] at ht'
      rw [interpolate_times_eq, mem_arange] at ht'
      omega

example : gaussianTimes true 1 true [⟨[(0, 1), (1, 2), (3, 4)], none, none⟩, ⟨[(2, 3), (5, 3)], some 1, none⟩]
    = [([0, 1], none), ([4, 5], some 1)] := by decide +kernel

/-! ## removing tracks in a rectangle -/

/-- `remove_tracks_in_rect` only removes whole tracks -/
theorem removeInRect_sublist (k : Kymo) (r : Rect) (all : Bool) (g : List Track) :
    (removeInRect k r all g).Sublist g := List.filter_sublist

/-! ## Deepening round D — the invariant the other theorems assume is established by the code -/

theorem wf_of_same (t tr : Track) (hp : t.pts = tr.pts) (hc : t.counts = tr.counts) (h : WF tr) : WF t := by
  unfold WF at *
  rw [hp, hc]; exact h

/-- Every editing operation that succeeds turns a group of well-formed tracks (non-empty, strictly
    increasing scan lines, one photon count per node) into a group of well-formed tracks — for
    arbitrary arguments, negative Python node indices included. -/
theorem applyOp_preserves_wf (k : Kymo) (g g' : List Track) (op : Op) (hwf : ∀ tr ∈ g, WF tr)
    (h : applyOp k g op = .ok g') : ∀ tr ∈ g', WF tr := by
  intro t ht
  cases op with
  | split i node minLen =>
    obtain ⟨tr, htr, n, h0, h1, hm⟩ := splitTrack_members g i node minLen g' h
    rcases hm t ht with h | rfl | rfl
    · exact hwf t h
    · exact wf_takeN tr n (hwf tr htr) h0
    · exact wf_dropN tr n (hwf tr htr) h1
  | merge i ni j nj =>
    obtain ⟨M, hM, _, hm⟩ := mergeTracks_members g i j ni nj g' hwf h
    rcases hm t ht with h | rfl
    · exact hwf t h
    · exact hM
  | filter minLen minDur =>
    simp only [applyOp, Except.ok.injEq] at h
    subst h
    obtain ⟨tr, htr, hp, hc⟩ := filterTracks_members k.lt minLen minDur g t ht
    exact wf_of_same t tr hp hc (hwf tr htr)
  | interp =>
    simp only [applyOp, Except.ok.injEq] at h
    subst h
    obtain ⟨tr, htr, rfl⟩ := List.mem_map.1 ht
    exact wf_interpolate tr (hwf tr htr)
  | rect r all =>
    simp only [applyOp, Except.ok.injEq] at h
    subst h
    exact hwf t ((removeInRect_sublist k r all g).subset ht)

/-- … hence after ANY program of split / merge / filter / interpolate / remove-in-rectangle operations
    (failing operations leave the group unchanged) all tracks are still well formed: the hypotheses
    `StrictInc`, `pts ≠ []` of the interpolation, merge-order and duration-bound theorems hold at
    every step of an editing session that starts from well-formed tracks. -/
theorem runProg_preserves_wf (k : Kymo) (g : List Track) (ops : List Op) (hwf : ∀ tr ∈ g, WF tr) :
    ∀ tr ∈ (runProg k g ops).2, WF tr := by
  induction ops generalizing g with
  | nil => exact hwf
  | cons op ops ih =>
    unfold runProg
    cases h : applyOp k g op with
    | ok g' => exact ih g' (applyOp_preserves_wf k g g' op hwf h)
    | error e => exact ih g hwf

example : WF ⟨[(0, 1), (2, 2), (3, 5)], some 1, some [4, 5, 6]⟩ := by
  refine ⟨by simp, by unfold StrictInc; decide, ?_⟩
  intro c hc; cases hc; rfl

def Op.isInterp : Op → Bool
  | .interp => true
  | _ => false

theorem applyOp_no_new_nodes (k : Kymo) (g g' : List Track) (op : Op) (hwf : ∀ tr ∈ g, WF tr)
    (hop : op.isInterp = false) (h : applyOp k g op = .ok g') : ∀ p ∈ nodesOf g', p ∈ nodesOf g := by
  intro p hp
  rw [mem_nodesOf] at hp ⊢
  obtain ⟨t, ht, hpt⟩ := hp
  cases op with
  | split i node minLen =>
    obtain ⟨tr, htr, n, _, _, hm⟩ := splitTrack_members g i node minLen g' h
    rcases hm t ht with h | rfl | rfl
    · exact ⟨t, h, hpt⟩
    · exact ⟨tr, htr, (List.take_sublist _ _).subset hpt⟩
    · exact ⟨tr, htr, (List.drop_sublist _ _).subset hpt⟩
  | merge i ni j nj =>
    obtain ⟨M, _, hM, hm⟩ := mergeTracks_members g i j ni nj g' hwf h
    rcases hm t ht with h | rfl
    · exact ⟨t, h, hpt⟩
    · exact hM p hpt
  | filter minLen minDur =>
    simp only [applyOp, Except.ok.injEq] at h
    subst h
    obtain ⟨tr, htr, hp', _⟩ := filterTracks_members k.lt minLen minDur g t ht
    exact ⟨tr, htr, hp' ▸ hpt⟩
  | interp => simp [Op.isInterp] at hop
  | rect r all =>
    simp only [applyOp, Except.ok.injEq] at h
    subst h
    exact ⟨t, (removeInRect_sublist k r all g).subset ht, hpt⟩

/-- **Editing never invents or alters a node**: after any program of split / merge / filter /
    remove-in-rectangle operations every node (scan line, coordinate) of every track is a node of
    some track of the group the program started from. -/
theorem runProg_no_new_nodes (k : Kymo) (g : List Track) (ops : List Op) (hwf : ∀ tr ∈ g, WF tr)
    (hno : ∀ op ∈ ops, op.isInterp = false) : ∀ p ∈ nodesOf (runProg k g ops).2, p ∈ nodesOf g := by
  induction ops generalizing g with
  | nil => intro p hp; exact hp
  | cons op ops ih =>
    unfold runProg
    have hno' : ∀ o ∈ ops, o.isInterp = false := fun o ho => hno o (List.mem_cons_of_mem _ ho)
    cases h : applyOp k g op with
    | ok g' =>
      intro p hp
      exact applyOp_no_new_nodes k g g' op hwf (hno op (by simp)) h p
        (ih g' (applyOp_preserves_wf k g g' op hwf h) hno' p hp)
    | error e => exact ih g hwf hno'

example : (runProg ⟨1, some 1, 1 / 8⟩ [⟨[(0, 1), (1, 2), (3, 4)], none, none⟩, ⟨[(5, 5)], none, none⟩]
    [.split 0 1 1, .merge 0 0 2 0, .filter 2 0]).2
    = [⟨[(1, 2), (5, 5)], some (1 / 8), none⟩] := by decide +kernel

/-! ## composition laws -/

/-- **Split followed by reconnecting the two parts is the identity**: splitting track `i` at node `n`
    appends the two parts at the end of the group; connecting the last node of the first part with the
    first node of the second part gives back the track (nodes, photon counts, minimum duration) and
    leaves every other track as it was. -/
theorem split_merge_roundtrip (g : List Track) (i : Nat) (tr : Track) (hi : g[i]? = some tr) (n : Nat)
    (h0 : 0 < n) (h1 : n < tr.len) (hs : StrictInc tr.pts) (minLen : Int) (hb : minLen ≤ n)
    (ha : minLen ≤ (tr.len : Int) - n) :
    ∃ g', splitTrack g i n minLen = .ok g' ∧
      mergeTracks g' (g.length - 1) ((n : Int) - 1) g.length 0 = .ok (g.eraseIdx i ++ [tr]) := by
  have hil : i < g.length := (List.getElem?_eq_some_iff.1 hi).1
  have hlen : tr.pts.length = tr.len := rfl
  refine ⟨g.eraseIdx i ++ [tr.takeN n, tr.dropN n], ?_, ?_⟩
  · rw [splitTrack_spec g i tr hi n h0 h1 minLen]
    have e1 : (tr.takeN n).len = n := by simp only [Track.takeN, Track.len, List.length_take]; omega
    have e2 : (tr.dropN n).len = tr.len - n := by simp only [Track.dropN, Track.len, List.length_drop]
    have d1 : decide (minLen ≤ ((tr.takeN n).len : Int)) = true := by rw [e1]; simpa using hb
    have d2 : decide (minLen ≤ ((tr.dropN n).len : Int)) = true := by
      rw [e2]; simp only [decide_eq_true_eq]; omega
    simp [List.filter, d1, d2]
  · have hE : (g.eraseIdx i).length = g.length - 1 := by rw [List.length_eraseIdx]; simp [hil]
    obtain ⟨m, rfl⟩ : ∃ m, n = m + 1 := ⟨n - 1, by omega⟩
    have hm1 : m < tr.pts.length := by omega
    have hm2 : m + 1 < tr.pts.length := by omega
    have hcast : ((m + 1 : Nat) : Int) - 1 = (m : Int) := by omega
    have hz : (0 : Int) = ((0 : Nat) : Int) := rfl
    rw [hcast, hz]
    have hA : (g.eraseIdx i ++ [tr.takeN (m + 1), tr.dropN (m + 1)])[g.length - 1]? = some (tr.takeN (m + 1)) := by
      rw [← hE, List.getElem?_append_right (Nat.le_refl _)]; simp
    have hB : (g.eraseIdx i ++ [tr.takeN (m + 1), tr.dropN (m + 1)])[g.length]? = some (tr.dropN (m + 1)) := by
      have : g.length = (g.eraseIdx i).length + 1 := by omega
      rw [this, List.getElem?_append_right (by omega)]; simp
    have hpa : (tr.takeN (m + 1)).pts[m]? = some tr.pts[m] := by
      simp only [Track.takeN]
      rw [List.getElem?_take_of_lt (by omega), List.getElem?_eq_getElem hm1]
    have hpb : (tr.dropN (m + 1)).pts[0]? = some tr.pts[m + 1] := by
      simp only [Track.dropN]
      rw [List.getElem?_drop, List.getElem?_eq_getElem (by omega)]
    have hlt : (tr.pts[m]).1 < (tr.pts[m + 1]).1 :=
      List.pairwise_iff_getElem.1 hs m (m + 1) hm1 hm2 (by omega)
    rw [merge_conserves_undiscarded _ (g.length - 1) g.length m 0 _ _ _ _ hA hB hpa hpb hlt]
    have hne : ¬ g.length - 1 = g.length := by omega
    simp only [hne, if_false]
    have hM : mergedTrack (tr.takeN (m + 1)) (tr.dropN (m + 1)) m 0 = tr := by
      unfold mergedTrack Track.takeN Track.dropN
      cases tr with
      | mk pts md cs =>
        cases cs with
        | none => simp [List.take_take]
        | some c => simp [List.take_take]
    rw [hM, ← hE, List.set_append_right _ _ (Nat.le_refl _)]
    simp only [Nat.sub_self, List.set_cons_zero]
    have : (g.eraseIdx i).length + 1 = (g.eraseIdx i).length + 1 := rfl
    rw [show g.length = (g.eraseIdx i).length + 1 by omega,
      List.eraseIdx_append_of_length_le (by omega)]
    simp

example : ∃ g', splitTrack [⟨[(9, 9)], none, none⟩, ⟨[(0, 1), (1, 2), (3, 4)], some 1, some [5, 6, 7]⟩] 1 (2 : Nat) 1 = .ok g' ∧
    mergeTracks g' 1 1 2 0 = .ok [⟨[(9, 9)], none, none⟩, ⟨[(0, 1), (1, 2), (3, 4)], some 1, some [5, 6, 7]⟩] :=
  ⟨[⟨[(9, 9)], none, none⟩, ⟨[(0, 1), (1, 2)], some 1, some [5, 6]⟩, ⟨[(3, 4)], some 1, some [7]⟩],
    by decide +kernel, by decide +kernel⟩

/-- **interpolating twice = interpolating once** -/
theorem interpolate_idempotent (tr : Track) (hne : tr.pts ≠ []) :
    tr.interpolate.interpolate = tr.interpolate := by
  unfold Track.interpolate
  simp only [interpolate_idem tr.pts hne]

example : (⟨[(0, 1), (2, 2)], some 1, some [3, 4]⟩ : Track).interpolate.interpolate
    = ⟨[(0, 1), (1, 3 / 2), (2, 2)], some 1, none⟩ := by decide +kernel

/-- **centroid refinement of already refined tracks fills the same lines**: refining twice returns
    tracks on exactly the scan lines of refining once (whatever the two estimators do). -/
theorem refine_refine_span (f f' : Int → Rat → Rat) (s s' : Int → Rat → Int) (g : List Track)
    (hne : ∀ tr ∈ g, tr.pts ≠ []) :
    (refineCentroid f' s' (refineCentroid f s g)).map (·.times) = (refineCentroid f s g).map (·.times) := by
  simp only [refineCentroid, List.map_map]
  apply List.map_congr_left
  intro tr htr
  simp only [Function.comp, Track.times, List.map_map]
  have hfst : ∀ (h : Int → Rat → Rat) (l : List Pt), (l.map fun p => (p.1, h p.1 p.2)).map (·.1) = l.map (·.1) := by
    intro h l; rw [List.map_map]; rfl
  have e1 := hfst f (interpolate tr.pts)
  rw [interpolate_times_eq] at e1
  have hab : tmin tr.pts ≤ tmax tr.pts := by
    cases hp : tr.pts with
    | nil => exact absurd hp (hne tr htr)
    | cons p ps => have := tmin_le_tmax_mem (p :: ps) p (by simp); omega
  have hsi : StrictInc ((interpolate tr.pts).map fun p => (p.1, f p.1 p.2)) := by
    have h := arange_pairwise (tmin tr.pts) (tmax tr.pts + 1)
    rw [← e1, List.pairwise_map] at h
    exact h
  obtain ⟨h1, h2⟩ := tmin_tmax_of_times _ hsi _ _ hab e1
  have hc : ∀ h : Int → Rat → Rat, ((fun x : Pt => x.1) ∘ fun p : Pt => (p.1, h p.1 p.2)) = fun p => p.1 :=
    fun _ => rfl
  rw [hc, hc, interpolate_times_eq, interpolate_times_eq, h1, h2]

example : (refineCentroid (fun _ c => c + 1) (fun _ _ => 7) (refineCentroid (fun _ c => c) (fun _ _ => 0)
    [⟨[(2, 1), (5, 2)], none, none⟩])).map (·.times) = [[2, 3, 4, 5]] := by decide +kernel

/-- **filtering twice = filtering once with both thresholds**: the tracks kept are those meeting both
    pairs of thresholds and the minimum observable duration is the maximum of the old value and both
    bounds (filters never lower it, and commute). -/
theorem filter_filter (lt : Rat) (L₁ L₂ : Int) (D₁ D₂ : Rat) (g : List Track) :
    filterTracks lt L₂ D₂ (filterTracks lt L₁ D₁ g)
      = (g.filter fun tr => keepTrack lt L₁ D₁ tr && keepTrack lt L₂ D₂ tr).map fun tr =>
          { tr with minDur := some (max (max (tr.minDur.getD 0) (minObservable lt L₁ D₁)) (minObservable lt L₂ D₂)) } := by
  unfold filterTracks
  rw [List.filter_map, List.filter_filter, List.map_map]
  congr 1
  congr 1
  funext tr
  exact Bool.and_comm _ _

theorem filter_idempotent (lt : Rat) (L : Int) (D : Rat) (g : List Track) :
    filterTracks lt L D (filterTracks lt L D g) = filterTracks lt L D g := by
  rw [filter_filter]
  unfold filterTracks
  have h1 : (g.filter fun tr => keepTrack lt L D tr && keepTrack lt L D tr) = g.filter (keepTrack lt L D) := by
    congr 1; funext tr; simp
  rw [h1]
  apply List.map_congr_left
  intro tr _
  rw [max_assoc, max_self]

/-! ## removing tracks in a rectangle -/

/-- **`remove_tracks_in_rect` removes exactly the tracks with a node (`all_points`: with all nodes)
    inside the half-open rectangle** `[min t, max t) × [min x, max x)` in seconds × position units —
    whichever order the two corners are given in —, keeps all other tracks, unchanged and in order. -/
theorem removeInRect_spec (k : Kymo) (r : Rect) (all : Bool) (g : List Track) :
    removeInRect k r all g = g.filter fun tr =>
      let inside : Pt → Prop := fun p =>
        min r.t0 r.t1 ≤ k.lt * p.1 ∧ k.lt * p.1 < max r.t0 r.t1 ∧
        min r.x0 r.x1 ≤ p.2 * k.px ∧ p.2 * k.px < max r.x0 r.x1
      if all then decide (¬ ∀ p ∈ tr.pts, inside p) else decide (¬ ∃ p ∈ tr.pts, inside p) := by
  unfold removeInRect
  congr 1
  funext tr
  have hmin : ∀ a b : Rat, (if a > b then b else a) = min a b := by
    intro a b
    by_cases h : a > b
    · simp [h, min_eq_right (le_of_lt h)]
    · simp [h, min_eq_left (not_lt.1 h)]
  have hmax : ∀ a b : Rat, (if a > b then a else b) = max a b := by
    intro a b
    by_cases h : a > b
    · simp [h, max_eq_left (le_of_lt h)]
    · simp [h, max_eq_right (not_lt.1 h)]
  have hpt : ∀ p : Pt, ptInRect k r.ordered p = decide (min r.t0 r.t1 ≤ k.lt * p.1 ∧ k.lt * p.1 < max r.t0 r.t1 ∧
        min r.x0 r.x1 ≤ p.2 * k.px ∧ p.2 * k.px < max r.x0 r.x1) := by
    intro p
    simp only [ptInRect, Rect.ordered, hmin, hmax, Bool.decide_and]
    cases decide (k.lt * ↑p.1 < max r.t0 r.t1) <;> cases decide (min r.t0 r.t1 ≤ k.lt * ↑p.1) <;>
      cases decide (p.2 * k.px < max r.x0 r.x1) <;> cases decide (min r.x0 r.x1 ≤ p.2 * k.px) <;> rfl
  have hfun := funext hpt
  cases all with
  | true =>
    simp only [inRect, if_true, hfun]
    rw [Bool.eq_iff_iff]
    simp
  | false =>
    simp only [inRect, Bool.false_eq_true, if_false, hfun]
    rw [Bool.eq_iff_iff]
    simp

example : removeInRect ⟨1 / 10, some (1 / 10), 1 / 8⟩ ⟨1 / 2, 1, 0, 0⟩ false
      [⟨[(0, 1), (5, 2)], none, none⟩, ⟨[(1, 12), (2, 3)], none, none⟩, ⟨[(4, 1)], none, none⟩]
    = [⟨[(4, 1)], none, none⟩] := by decide +kernel

/-! ## the file as text: version header, column titles, lookup by title -/

/-- **Save + import through the text of the file = save + import of the named columns.**  The titles
    `export_kymotrackgroup_to_csv` writes (five fixed ones, the counts title iff a sampling width is
    given, the minimum-duration title iff every track has one; position unit um / kbp / pixel), the
    `# ` that `np.savetxt` puts in front of the first title, the `zip(header, columns)` dict of
    `_read_txt` and the look-ups BY TITLE of `import_kymotrackgroup_from_csv` (mandatory fields, version
    dependent minimum-duration title, first key containing `counts`) pick exactly the cells that were
    written: for every group, sampling width and sampler the result is the one of `roundtrip`. -/
theorem file_roundtrip (k : Kymo) (unit : Title) (hu : unit = uUm ∨ unit = uKbp ∨ unit = uPixel)
    (sw : Option Nat) (smp : Nat → Int → Rat → Int) (fmt : Rat → Rat) (g : List Track) :
    fileRoundtrip k unit sw smp fmt g = roundtrip k (sw.map smp) fmt g := by
  unfold fileRoundtrip exportFile roundtrip
  cases h : exportRows k (sw.map smp) fmt g with
  | error e => rfl
  | ok rows =>
    simp only
    have hs := exported_rows_shape k (sw.map smp) fmt g rows h
    exact importFile_written k unit hu sw _ rows (by
      intro r hr
      have := hs r hr
      simpa using this)

/-- … so the round-trip theorem holds for the file as text: every non-empty group of non-empty tracks
    (a single one-node track included) comes back with the same tracks in the same order. -/
theorem file_roundtrip_spec (k : Kymo) (hpx : k.px ≠ 0) (unit : Title)
    (hu : unit = uUm ∨ unit = uKbp ∨ unit = uPixel) (sw : Option Nat) (smp : Nat → Int → Rat → Int)
    (fmt : Rat → Rat) (g : List Track) (hne : g ≠ []) (hpts : ∀ tr ∈ g, tr.pts ≠ []) :
    fileRoundtrip k unit sw smp fmt g
      = .ok (g.map (reimported (sw.map smp) fmt (g.all (·.minDur.isSome)))) := by
  rw [file_roundtrip k unit hu, import_export_roundtrip k hpx _ fmt g hne hpts]

example : fileRoundtrip ⟨3 / 5, some (1 / 10), 1 / 8⟩ uKbp (some 1) (fun w => sumSignal [[1, 2, 3], [4, 5, 6]] w (1 / 2)) fmt6e
      [⟨[(0, 1 / 2), (1, 3 / 2)], some (1 / 4), none⟩, ⟨[(1, 0)], some 0, none⟩]
    = .ok [⟨[(0, 1 / 2), (1, 3 / 2)], some (1 / 4), some [6, 11]⟩, ⟨[(1, 0)], some 0, some [9]⟩] := by
  decide +kernel

/-- the header of the single-node file of finding F4 (test: one concrete file) -/
example : exportFile ⟨1 / 10, some (1 / 10), 1 / 8⟩ uUm none (fun _ _ _ => 0) fmt6e [⟨[(3, 3 / 2)], none, none⟩]
    = .ok ⟨some 4, [tIdx, tTimePx, tCoordPx, tTimeSec, tPosition uUm], [[0, 3, 3 / 2, 3 / 8, 3 / 20]]⟩ := by
  decide +kernel

/-- a version-3 file keeps its minimum length under `minimum_length (-)`; the same column under the
    version-4 title is not read (test: two concrete files) -/
example : importFile ⟨1 / 10, some (1 / 10), 1 / 8⟩ ⟨some 3, [tIdx, tTimePx, tCoordPx, tMinLenV3], [[0, 3, 3 / 2, 2]]⟩
      = .ok [⟨[(3, 3 / 2)], some 2, none⟩]
    ∧ importFile ⟨1 / 10, some (1 / 10), 1 / 8⟩ ⟨some 3, [tIdx, tTimePx, tCoordPx, tMinDur], [[0, 3, 3 / 2, 2]]⟩
      = .ok [⟨[(3, 3 / 2)], none, none⟩]
    ∧ importFile ⟨1 / 10, some (1 / 10), 1 / 8⟩ ⟨some 4, [tTimePx, tIdx, tCoordPx], [[0, 3, 3 / 2]]⟩ = .error .io := by
  decide +kernel

/-! ## the `%.6e` column of minimum observable durations -/

/-- the magnitudes the exponent search of the model covers (every finite double is inside) -/
def InRange (x : Rat) : Prop := x = 0 ∨ (pow10 (-1000) ≤ |x| ∧ |x| < pow10 1000)

theorem fmt6e_zero : fmt6e 0 = 0 := by rw [fmt6e_eq]; simp

/-- **`%.6e` is idempotent**: a value that was printed with seven significant digits is printed
    unchanged — the hypothesis `fmt d = d` of `import_export_roundtrip_id` is ESTABLISHED by the first
    save. -/
theorem fmt6e_idempotent (x : Rat) (h : InRange x) : fmt6e (fmt6e x) = fmt6e x := by
  rcases h with rfl | ⟨hlo, hhi⟩
  · rw [fmt6e_zero, fmt6e_zero]
  · rw [fmt6e_eq x]
    have hx0 : x ≠ 0 := by
      intro h0; subst h0
      have := pow10_pos (-1000)
      simp at hlo; linarith
    simp only [hx0, if_false]
    by_cases hneg : x < 0
    · simp only [hneg, if_true]
      rw [abs_of_neg hneg] at hlo hhi
      obtain ⟨hv, hid, _⟩ := fmtPos_props (-x) (by linarith) hlo hhi
      rw [fmt6e_eq]
      have h1 : -fmtPos (-x) ≠ 0 := by linarith
      have h2 : -fmtPos (-x) < 0 := by linarith
      simp only [h1, h2, if_false, if_true, neg_neg, hid]
    · simp only [hneg, if_false]
      have hpos : 0 < x := lt_of_le_of_ne (not_lt.1 hneg) (Ne.symm hx0)
      rw [abs_of_pos hpos] at hlo hhi
      obtain ⟨hv, hid, _⟩ := fmtPos_props x hpos hlo hhi
      rw [fmt6e_eq]
      have h1 : fmtPos x ≠ 0 := by linarith
      have h2 : ¬ fmtPos x < 0 := by linarith
      simp only [h1, h2, if_false, hid]

/-- **`%.6e` keeps seven significant digits**: the printed value differs from the value by at most
    half a unit of the seventh digit, i.e. relative `5·10⁻⁷`. -/
theorem fmt6e_accurate (x : Rat) (h : InRange x) : |fmt6e x - x| ≤ |x| * (1 / 2000000) := by
  rcases h with rfl | ⟨hlo, hhi⟩
  · rw [fmt6e_zero]; simp
  · rw [fmt6e_eq x]
    have hx0 : x ≠ 0 := by
      intro h0; subst h0
      have := pow10_pos (-1000)
      simp at hlo; linarith
    simp only [hx0, if_false]
    by_cases hneg : x < 0
    · simp only [hneg, if_true]
      rw [abs_of_neg hneg] at hlo hhi ⊢
      obtain ⟨_, _, hacc⟩ := fmtPos_props (-x) (by linarith) hlo hhi
      have : -fmtPos (-x) - x = -(fmtPos (-x) - -x) := by ring
      rw [this, abs_neg]; exact hacc
    · simp only [hneg, if_false]
      have hpos : 0 < x := lt_of_le_of_ne (not_lt.1 hneg) (Ne.symm hx0)
      rw [abs_of_pos hpos] at hlo hhi ⊢
      exact (fmtPos_props x hpos hlo hhi).2.2

example : InRange (1234567 / 1000000 + 1 / 3) := by
  right
  rw [pow10_eq_zpow, pow10_eq_zpow, abs_of_pos (by norm_num)]
  constructor
  · calc (10 : Rat) ^ (-1000 : Int) ≤ 10 ^ (0 : Int) := zpow_le_zpow_right₀ (by norm_num) (by norm_num)
      _ ≤ _ := by norm_num
  · calc (1234567 / 1000000 + 1 / 3 : Rat) < 10 ^ (1 : Int) := by norm_num
      _ ≤ 10 ^ (1000 : Int) := zpow_le_zpow_right₀ (by norm_num) (by norm_num)

/-- test (not a theorem about all inputs): a tie is rounded to even, a carry moves the exponent -/
example : fmt6e (12345675 / 10000000) = 1234568 / 1000000 ∧ fmt6e (99999995 / 10000000) = 10
    ∧ fmt6e (fmt6e (1 / 3)) = fmt6e (1 / 3) := by decide +kernel

/-- **Save → load → save → load = save → load.**  For every non-empty group of non-empty tracks, the
    group that comes back from a file is a fixed point of the round trip: saving it again (same
    kymograph, same sampling) and importing returns exactly the same tracks, photon counts and
    minimum observable durations. -/
theorem roundtrip_twice (k : Kymo) (hpx : k.px ≠ 0) (sample : Option (Int → Rat → Int)) (g : List Track)
    (hne : g ≠ []) (hpts : ∀ tr ∈ g, tr.pts ≠ [])
    (hr : ∀ tr ∈ g, ∀ d, tr.minDur = some d → InRange d) :
    ∃ g', roundtrip k sample fmt6e g = .ok g' ∧ roundtrip k sample fmt6e g' = .ok g' := by
  refine ⟨_, import_export_roundtrip k hpx sample fmt6e g hne hpts, ?_⟩
  apply import_export_roundtrip_id k hpx sample fmt6e
  · simpa using hne
  · intro tr' h'
    obtain ⟨tr, htr, rfl⟩ := List.mem_map.1 h'
    exact hpts tr htr
  · intro tr' h'
    obtain ⟨tr, htr, rfl⟩ := List.mem_map.1 h'
    rfl
  · cases hall : g.all (·.minDur.isSome) with
    | false =>
      left
      intro tr' h'
      obtain ⟨tr, htr, rfl⟩ := List.mem_map.1 h'
      simp [reimported, mdOf]
    | true =>
      right
      intro tr' h'
      obtain ⟨tr, htr, rfl⟩ := List.mem_map.1 h'
      have hsome := (List.all_eq_true.1 hall) tr htr
      obtain ⟨d, hd⟩ := Option.isSome_iff_exists.1 hsome
      refine ⟨fmt6e d, by simp [reimported, mdOf, hd], ?_⟩
      exact fmt6e_idempotent d (hr tr htr d hd)

example : ∃ g', roundtrip ⟨3 / 5, some (1 / 10), 1 / 8⟩ (some (sumSignal [[1, 2, 3], [4, 5, 6]] 1 (1 / 2))) fmt6e
      [⟨[(0, 1 / 2), (1, 3 / 2)], some (1 / 3), none⟩] = .ok g' ∧
    roundtrip ⟨3 / 5, some (1 / 10), 1 / 8⟩ (some (sumSignal [[1, 2, 3], [4, 5, 6]] 1 (1 / 2))) fmt6e g' = .ok g' :=
  ⟨[⟨[(0, 1 / 2), (1, 3 / 2)], some (3333333 / 10000000), some [6, 11]⟩], by decide +kernel, by decide +kernel⟩

/-! ## sampled photon counts (`_sum_track_signal`) -/

/-- **The sampled count is the sum over the pixels of the scan line within `w` of the centre pixel**
    (`int(c + offset)`), clipped to the image: the Python slice `max(centre − w, 0) : centre + w + 1`
    selects exactly the positions `p` with `centre − w ≤ p ≤ centre + w` that exist — provided the
    stop of the slice is not negative (centre pixel at most `w + 1` left of the image). -/
theorem sumSignal_spec (img : List (List Int)) (w : Nat) (off : Rat) (t : Int) (c : Rat)
    (h : 0 ≤ trunc (c + off) + w + 1) :
    sumSignal img w off t c
      = (((List.range ((pyIndex img t).getD []).length).filter fun (p : Nat) =>
            decide (trunc (c + off) - w ≤ (p : Int) ∧ (p : Int) ≤ trunc (c + off) + w)).map
          fun (p : Nat) => (((pyIndex img t).getD [])[p]?).getD 0).sum := by
  unfold sumSignal
  simp only
  generalize (pyIndex img t).getD [] = line
  generalize trunc (c + off) = centre at *
  unfold pySlice
  obtain ⟨i, hi⟩ : ∃ i : Nat, max (centre - (w : Int)) 0 = i := ⟨(max (centre - (w : Int)) 0).toNat, by omega⟩
  obtain ⟨j, hj⟩ : ∃ j : Nat, centre + (w : Int) + 1 = j := ⟨(centre + (w : Int) + 1).toNat, by omega⟩
  rw [hi, hj, pyNorm_nat, pyNorm_nat, sum_take_drop]
  unfold windowSum
  congr 2
  apply List.filter_congr
  intro p hp
  have hp' : p < line.length := List.mem_range.1 hp
  simp only [decide_eq_decide]
  omega

example : sumSignal [[1, 2, 3, 4, 5]] 1 (1 / 2) 0 (1 / 4) = 3 ∧ sumSignal [[1, 2, 3, 4, 5]] 1 (1 / 2) 0 (15 / 4) = 9 := by
  decide +kernel

example : (0 : Int) ≤ trunc (1 / 4 + 1 / 2) + ((1 : Nat) : Int) + 1 := by decide +kernel

/-- the hypothesis is necessary (kernel-checked witness): a centre pixel more than `w + 1` left of the
    image makes the stop of the slice negative, Python counts it from the END of the line, and the
    "window" is almost the whole scan line (10 instead of 0).  Coordinates of tracks lie inside the
    image, so the property never meets this case. -/
theorem sumSignal_negative_stop_wraps : sumSignal [[1, 2, 3, 4, 5]] 1 0 0 (-3) = 10 := by decide +kernel

/-! ## centroid refinement on a noise-free spot (bias correction off) -/

/-- the two `convolve2d(…, "same")` calls of `refine_peak_based_on_moment` are the zeroth and first
    moment (about the pixel `p`) of the `2h+1` pixels around `p`, zero outside the image -/
theorem centroid_offset_spec (eps : Rat) (line : List Rat) (h : Nat) (p : Int) :
    subpixelOffset eps line h p
      = (∑ j ∈ Finset.range (2 * h + 1), (((j : Int) - h : Int) : Rat) * dAt line (p - h + j))
        / (∑ j ∈ Finset.range (2 * h + 1), dAt line (p - h + j) + eps) := by
  unfold subpixelOffset
  rw [conv_mean, conv_dir]

/-- **Centroid refinement returns the true centre of a noise-free spot.**  Whenever the refinement of a
    node succeeds it stops at a pixel `c` that the loop no longer moves, and returns `c + offset(c)`.
    If the spot on that scan line is non-negative, has counts, and lies inside the window of `c`
    (no counts further than `h` pixels from `c`), the returned coordinate is the centre of mass
    `Σ q·I(q) / Σ I(q)` of the line, pulled towards `c` by the factor `eps / (Σ I + eps)` of the
    regularised division — at most `h·eps / (Σ I + eps)` pixels (`eps = 1e-7`). -/
theorem centroid_true_centre (eps : Rat) (heps : 0 ≤ eps) (img : List (List Rat)) (h : Nat) (t : Int)
    (x y : Rat) (hy : centroidCoord eps img h t x = some y) :
    ∃ c : Int, stepCoord eps ((pyIndex img t).getD []) h c = c ∧
      y = (c : Rat) + subpixelOffset eps ((pyIndex img t).getD []) h c ∧
      (SpotInWindow ((pyIndex img t).getD []) h c → (∀ q, 0 ≤ pix ((pyIndex img t).getD []) q) →
        0 < lineMass ((pyIndex img t).getD []) →
        let μ := lineMoment ((pyIndex img t).getD []) / lineMass ((pyIndex img t).getD [])
        let M := lineMass ((pyIndex img t).getD [])
        y - μ = ((c : Rat) - μ) * (eps / (M + eps)) ∧ |y - μ| ≤ (h : Rat) * (eps / (M + eps))) := by
  unfold centroidCoord at hy
  simp only at hy
  generalize (pyIndex img t).getD [] = line at *
  cases hst : settle eps line h 99 (roundHalfEven x) with
  | none => simp [hst] at hy
  | some c =>
    simp only [hst, Option.map_some, Option.some.injEq] at hy
    refine ⟨c, settle_stable eps line h 99 _ c hst, hy.symm, ?_⟩
    intro hs hpos hM
    have hMe : lineMass line + eps ≠ 0 := by linarith
    have hM0 : lineMass line ≠ 0 := ne_of_gt hM
    have hval := centroid_value eps line h c hs hMe
    rw [hy] at hval
    have hfrac : 0 ≤ eps / (lineMass line + eps) := div_nonneg heps (by linarith)
    have heq : y - lineMoment line / lineMass line
        = ((c : Rat) - lineMoment line / lineMass line) * (eps / (lineMass line + eps)) := by
      rw [hval]; field_simp; ring
    refine ⟨heq, ?_⟩
    rw [heq, abs_mul, abs_of_nonneg hfrac]
    apply mul_le_mul_of_nonneg_right _ hfrac
    have hnear := com_near line h c hs hpos
    have : (c : Rat) - lineMoment line / lineMass line = ((c : Rat) * lineMass line - lineMoment line) / lineMass line := by
      field_simp
    rw [this, abs_div, abs_of_pos hM, div_le_iff₀ hM]
    exact hnear

/-- non-vacuity (tests on concrete lines): a symmetric spot is returned at its centre; an asymmetric
    one makes the loop walk one pixel and is returned at its centre of mass 7/4, up to `eps` -/
example : centroidCoord (1 / 10000000) [[0, 1, 2, 1, 0]] 2 0 2 = some 2 := by decide +kernel
example : centroidCoord (1 / 10000000) [[0, 1, 3, 0, 0]] 2 0 1 = some (2 - 1 / (4 + 1 / 10000000)) := by
  decide +kernel
example : SpotInWindow [0, 1, 3, 0, 0] 2 2 := by
  intro q hq hne
  simp only [List.length_cons, List.length_nil] at hq
  have : q = 0 ∨ q = 1 ∨ q = 2 ∨ q = 3 ∨ q = 4 := by omega
  rcases this with rfl | rfl | rfl | rfl | rfl <;> simp

/-- **what the centroid estimate is, for ANY data**: pixel + offset is the centre of mass of the pixels
    of the scan line that lie in the window `p−h … p+h` (those inside the image), with the pixel centre
    `p` itself entered with weight `eps` (the regularisation of the division). -/
theorem centroid_window_mean (eps : Rat) (line : List Rat) (h : Nat) (p : Int)
    (hden : (∑ q ∈ Finset.range line.length,
        if p - h ≤ (q : Int) ∧ (q : Int) ≤ p + h then pix line q else 0) + eps ≠ 0) :
    (p : Rat) + subpixelOffset eps line h p
      = ((∑ q ∈ Finset.range line.length,
            if p - h ≤ (q : Int) ∧ (q : Int) ≤ p + h then (q : Rat) * pix line q else 0) + (p : Rat) * eps)
        / ((∑ q ∈ Finset.range line.length,
            if p - h ≤ (q : Int) ∧ (q : Int) ≤ p + h then pix line q else 0) + eps) := by
  have hiff : ∀ q : Nat, (p - (h : Int) ≤ (q : Int) ∧ (q : Int) < p - (h : Int) + ((2 * h + 1 : Nat) : Int))
      ↔ (p - (h : Int) ≤ (q : Int) ∧ (q : Int) ≤ p + h) := by
    intro q; push_cast; omega
  have hm0 : ∑ j ∈ Finset.range (2 * h + 1), dAt line (p - h + j)
      = ∑ q ∈ Finset.range line.length, if p - h ≤ (q : Int) ∧ (q : Int) ≤ p + h then pix line q else 0 := by
    have := window_sum_eq line (fun _ => 1) (p - h) (2 * h + 1)
    simp only [one_mul] at this
    rw [this]
    apply Finset.sum_congr rfl
    intro q _
    simp only [hiff q]
  have hm1 : ∑ j ∈ Finset.range (2 * h + 1), (((j : Int) - h : Int) : Rat) * dAt line (p - h + j)
      = (∑ q ∈ Finset.range line.length, if p - h ≤ (q : Int) ∧ (q : Int) ≤ p + h then (q : Rat) * pix line q else 0)
        - (p : Rat) * ∑ q ∈ Finset.range line.length, if p - h ≤ (q : Int) ∧ (q : Int) ≤ p + h then pix line q else 0 := by
    have := window_sum_eq line (fun z => ((z - p : Int) : Rat)) (p - h) (2 * h + 1)
    have e : ∀ j : Nat, (((p - (h : Int) + (j : Int)) - p : Int) : Rat) = (((j : Int) - h : Int) : Rat) := by
      intro j; congr 1; omega
    simp only [e] at this
    rw [this, Finset.mul_sum, ← Finset.sum_sub_distrib]
    apply Finset.sum_congr rfl
    intro q _
    simp only [hiff q]
    split
    · push_cast; ring
    · simp
  rw [centroid_offset_spec, hm0, hm1]
  rw [hm0] at *
  field_simp
  ring


theorem mapM_option_fst (l : List Pt) (F : Pt → Option Rat) (r : List Pt)
    (h : l.mapM (fun p => (F p).map fun y => (p.1, y)) = some r) : r.map (·.1) = l.map (·.1) := by
  induction l generalizing r with
  | nil =>
    simp only [List.mapM_nil] at h
    cases h; rfl
  | cons p ps ih =>
    rw [List.mapM_cons] at h
    cases hF : F p with
    | none => simp [hF] at h
    | some y =>
      cases hps : ps.mapM (fun p => (F p).map fun y => (p.1, y)) with
      | none => simp [hF, hps] at h
      | some r' =>
        simp [hF, hps] at h
        subst h
        simp [ih r' hps]

theorem mapM_option_map {α β γ} (l : List α) (F : α → Option β) (G : α → γ) (H : β → γ) (r : List β)
    (hFG : ∀ a ∈ l, ∀ b, F a = some b → H b = G a) (h : l.mapM F = some r) : r.map H = l.map G := by
  induction l generalizing r with
  | nil =>
    simp only [List.mapM_nil] at h
    cases h; rfl
  | cons a as ih =>
    rw [List.mapM_cons] at h
    cases hF : F a with
    | none => simp [hF] at h
    | some b =>
      cases has : as.mapM F with
      | none => simp [hF, has] at h
      | some r' =>
        simp [hF, has] at h
        subst h
        simp only [List.map_cons]
        rw [hFG a (by simp) b hF, ih r' (fun a' ha' => hFG a' (List.mem_cons_of_mem _ ha')) has]

/-- **the concrete centroid estimator fills exactly the span**: whenever `refine_tracks_centroid`
    (bias correction off) succeeds, the refined tracks are the input tracks in order, each on the scan
    lines `first … last` of its source track — `refine_fills_span` instantiated with the modelled
    estimator instead of an arbitrary one. -/
theorem centroid_refinement_fills_span (eps : Rat) (img : List (List Rat)) (h : Nat) (g : List Track)
    (r : List (List Pt)) (hr : refineCentroidCoords eps img h g = some r) :
    r.map (fun tr => tr.map (·.1)) = refineSpan g := by
  unfold refineCentroidCoords at hr
  unfold refineSpan refineCentroid
  rw [List.map_map]
  apply mapM_option_map g _ _ _ r _ hr
  intro tr _ b hb
  simp only [Function.comp, Track.times, List.map_map]
  rw [mapM_option_fst _ _ b hb]
  rfl


example : refineCentroidCoords (1 / 10000000) [[0, 1, 2, 1, 0], [0, 1, 2, 1, 0], [0, 1, 2, 1, 0]] 2
    [⟨[(0, 2), (2, 2)], none, none⟩] = some [[(0, 2), (1, 2), (2, 2)]] := by decide +kernel

/-- the hypothesis of `centroid_window_mean` on a concrete line -/
example : (∑ q ∈ Finset.range [0, 1, 3, 0, 0].length,
    if (2 : Int) - (2 : Nat) ≤ (q : Int) ∧ (q : Int) ≤ 2 + (2 : Nat) then pix [0, 1, 3, 0, 0] q else 0) + (1 / 10000000 : Rat) ≠ 0 := by
  simp [Finset.sum_range_succ, pix]
  norm_num

theorem absRat_eq (x : Rat) : absRat x = |x| := by
  unfold absRat
  split
  · rename_i h; rw [abs_of_neg h]
  · rename_i h; rw [abs_of_nonneg (not_lt.1 h)]

/-- **where the walk stops**: the refined coordinate lies within half a pixel of the centre of the pixel
    the loop stopped on — unless that pixel is the first or the last one of the scan line, where the
    clamp `coordinates[low] = 0` / `coordinates[high] = n − 1` ends the walk. -/
theorem centroid_settled_offset (eps : Rat) (img : List (List Rat)) (h : Nat) (t : Int) (x y : Rat)
    (hy : centroidCoord eps img h t x = some y) :
    ∃ c : Int, y = (c : Rat) + subpixelOffset eps ((pyIndex img t).getD []) h c ∧
      (|y - (c : Rat)| ≤ 1 / 2 ∨ c = 0 ∨ c = (((pyIndex img t).getD []).length : Int) - 1) := by
  unfold centroidCoord at hy
  simp only at hy
  generalize (pyIndex img t).getD [] = line at *
  cases hst : settle eps line h 99 (roundHalfEven x) with
  | none => simp [hst] at hy
  | some c =>
    simp only [hst, Option.map_some, Option.some.injEq] at hy
    refine ⟨c, hy.symm, ?_⟩
    have hstable := settle_stable eps line h 99 _ c hst
    unfold stepCoord at hstable
    simp only at hstable
    by_cases hbig : 1 / 2 < absRat (subpixelOffset eps line h c)
    · right
      simp only [hbig, if_true] at hstable
      have hs : signInt (subpixelOffset eps line h c) ≠ 0 := by
        unfold signInt
        split
        · omega
        · split
          · omega
          · rename_i h1 h2
            have h0 : subpixelOffset eps line h c = 0 := le_antisymm (not_lt.1 h1) (not_lt.1 h2)
            rw [h0] at hbig
            unfold absRat at hbig
            norm_num at hbig
      split at hstable
      · left; omega
      · split at hstable
        · right; omega
        · omega
    · left
      rw [← hy, add_sub_cancel_left, ← absRat_eq]
      exact not_lt.1 hbig

example : centroidCoord (1 / 10000000) [[5, 1, 0, 0]] 1 0 0 = some (1 / (6 + 1 / 10000000)) := by decide +kernel


end Verif.C17
