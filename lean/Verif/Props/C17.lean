/-
  C17 — editing, refining and saving tracks preserve the track data: the property theorems.
  Model: lean/Verif/Model/C17.lean; specification-side definitions (`rowOf`, `reimported`,
  `Track.takeN/dropN`, `StrictInc`, `Collinear`, `segment`) and helper lemmas: lean/Verif/Lemmas/C17.lean.
-/
import Verif.Lemmas.C17

namespace Verif.C17
open Verif.Py

/-! ## saving and loading -/

/-- The columns the code stacks with `np.hstack` and transposes are, read line by line, the nodes of
    track 0 in track order, then those of track 1, …; each line carries its track number, the node,
    its time and position, the sampled count (iff a sampling width was given) and the formatted
    minimum duration (iff every track has one). -/
theorem export_order (k : Kymo) (sample : Option (Int → Rat → Int)) (fmt : Rat → Rat)
    (g : List Track) (hne : g ≠ []) :
    exportRows k sample fmt g = .ok (g.zipIdx.flatMap fun p =>
      p.1.pts.map (rowOf k sample (mdOf fmt (g.all (·.minDur.isSome)) p.1) p.2)) :=
  exportRows_eq k sample fmt g hne

example : exportRows ⟨1 / 10, some (1 / 10), 1 / 8⟩ none id [⟨[(3, 3 / 2)], none, none⟩]
    = .ok [⟨0, 3, 3 / 2, 3 / 8, 3 / 20, none, none⟩] := by decide +kernel

/-- an empty group is refused (`RuntimeError("No kymograph tracks to export")`) -/
theorem export_empty (k : Kymo) (sample : Option (Int → Rat → Int)) (fmt : Rat → Rat) :
    exportRows k sample fmt [] = .error .runtime := rfl

/-- **Round trip.**  For every non-empty group of non-empty tracks (any number of tracks, any number
    of nodes — including one track with one node), saving and importing with the same kymograph
    returns the same tracks in the same order with the same nodes; the photon counts are the ones
    sampled while saving (none without a sampling width); the minimum durations are the saved ones as
    formatted by the text format (none if some track of the group had none). -/
theorem import_export_roundtrip (k : Kymo) (hpx : k.px ≠ 0) (sample : Option (Int → Rat → Int))
    (fmt : Rat → Rat) (g : List Track) (hne : g ≠ []) (hpts : ∀ tr ∈ g, tr.pts ≠ []) :
    roundtrip k sample fmt g = .ok (g.map (reimported sample fmt (g.all (·.minDur.isSome)))) := by
  unfold roundtrip
  rw [exportRows_eq k sample fmt g hne]
  exact importGroup_rowBlocks k hpx sample fmt _ g hne hpts

/-- … and it is the identity when the tracks already carry what the file stores: counts equal to the
    sampled ones (or no counts and no sampling) and minimum durations that the format represents
    exactly (or none at all). -/
theorem import_export_roundtrip_id (k : Kymo) (hpx : k.px ≠ 0) (sample : Option (Int → Rat → Int))
    (fmt : Rat → Rat) (g : List Track) (hne : g ≠ []) (hpts : ∀ tr ∈ g, tr.pts ≠ [])
    (hcounts : ∀ tr ∈ g, tr.counts = sample.map fun s => tr.pts.map fun p => s p.1 p.2)
    (hmd : (∀ tr ∈ g, tr.minDur = none) ∨ (∀ tr ∈ g, ∃ d, tr.minDur = some d ∧ fmt d = d)) :
    roundtrip k sample fmt g = .ok g := by
  rw [import_export_roundtrip k hpx sample fmt g hne hpts]
  congr 1
  conv => rhs; rw [← List.map_id g]
  apply List.map_congr_left
  intro tr htr
  have hc := hcounts tr htr
  unfold reimported mdOf
  rcases hmd with hmd | hmd
  · have hall : g.all (·.minDur.isSome) = false := by
      cases g with
      | nil => exact absurd rfl hne
      | cons t ts => simp [hmd t (by simp)]
    have h1 := hmd tr htr
    cases tr with
    | mk pts md cs =>
      simp only at hc h1
      subst h1 hc
      simp [hall]
  · have hall : g.all (·.minDur.isSome) = true := by
      simp only [List.all_eq_true]
      intro t ht
      obtain ⟨d, hd, _⟩ := hmd t ht
      simp [hd]
    obtain ⟨d, hd, hf⟩ := hmd tr htr
    cases tr with
    | mk pts md cs =>
      simp only at hc hd
      subst hd hc
      simp [hall, hf]

/-- non-vacuity, and the input of finding F4: one track with one node -/
example : roundtrip ⟨1 / 10, some (1 / 10), 1 / 8⟩ none fmt6e [⟨[(3, 3 / 2)], none, none⟩]
    = .ok [⟨[(3, 3 / 2)], none, none⟩] := by decide +kernel

example : roundtrip ⟨3 / 5, some (1 / 10), 1 / 8⟩ (some (sumSignal [[1, 2, 3], [4, 5, 6]] 1 (1 / 2))) fmt6e
      [⟨[(0, 1 / 2), (1, 3 / 2)], some (1 / 4), none⟩, ⟨[(1, 0)], some 0, none⟩]
    = .ok [⟨[(0, 1 / 2), (1, 3 / 2)], some (1 / 4), some [6, 11]⟩, ⟨[(1, 0)], some 0, some [9]⟩] := by
  decide +kernel

/-- **F4 (fixed in /repo, 0ad99d4).**  With the pinned `_read_txt` the file of a group that consists
    of one single-node track cannot be read back (`IndexError`); the repaired import returns the group. -/
theorem F4_witness :
    (match exportRows ⟨1 / 10, some (1 / 10), 1 / 8⟩ none fmt6e [⟨[(3, 3 / 2)], none, none⟩] with
      | .ok rows => importGroupUnfixedF4 ⟨1 / 10, some (1 / 10), 1 / 8⟩ rows
      | .error e => .error e) = .error .index
    ∧ roundtrip ⟨1 / 10, some (1 / 10), 1 / 8⟩ none fmt6e [⟨[(3, 3 / 2)], none, none⟩]
      = .ok [⟨[(3, 3 / 2)], none, none⟩] := by decide +kernel

/-- **F8 (fixed in /repo, b4a4822).**  With the pinned `create_track`, a file with photon counts read
    against a kbp-calibrated kymograph (0.6 kbp = 0.1 µm per pixel) puts the node at pixel 1/4 instead
    of 3/2, and against an uncalibrated kymograph it raises `TypeError`; the repaired import returns
    the saved node in both cases. -/
theorem F8_witness :
    (match exportRows ⟨3 / 5, some (1 / 10), 1 / 8⟩ (some (sumSignal [[1, 2, 3]] 0 (1 / 2))) fmt6e
        [⟨[(0, 3 / 2)], none, none⟩] with
      | .ok rows => importGroupUnfixedF8 ⟨3 / 5, some (1 / 10), 1 / 8⟩ rows
      | .error e => .error e) = .ok [⟨[(0, 1 / 4)], none, some [3]⟩]
    ∧ (match exportRows ⟨1, none, 1 / 8⟩ (some (sumSignal [[1, 2, 3]] 0 (1 / 2))) fmt6e
        [⟨[(0, 3 / 2)], none, none⟩] with
      | .ok rows => importGroupUnfixedF8 ⟨1, none, 1 / 8⟩ rows
      | .error e => .error e) = .error .type
    ∧ roundtrip ⟨3 / 5, some (1 / 10), 1 / 8⟩ (some (sumSignal [[1, 2, 3]] 0 (1 / 2))) fmt6e
        [⟨[(0, 3 / 2)], none, none⟩] = .ok [⟨[(0, 3 / 2)], none, some [3]⟩]
    ∧ roundtrip ⟨1, none, 1 / 8⟩ (some (sumSignal [[1, 2, 3]] 0 (1 / 2))) fmt6e
        [⟨[(0, 3 / 2)], none, none⟩] = .ok [⟨[(0, 3 / 2)], none, some [3]⟩] := by decide +kernel

/-! ## splitting -/

/-- `_split` at a node strictly inside the track returns exactly the first `n` nodes and the rest
    (with their counts and the track's minimum duration). -/
theorem split_spec (tr : Track) (n : Nat) (h0 : 0 < n) (h1 : n < tr.len) :
    tr.split (n : Int) = .ok (tr.takeN n, tr.dropN n) := split_inside tr n h0 h1

example : (⟨[(0, 1), (1, 2), (3, 4)], some 1, some [5, 6, 7]⟩ : Track).split 2
    = .ok (⟨[(0, 1), (1, 2)], some 1, some [5, 6]⟩, ⟨[(3, 4)], some 1, some [7]⟩) := by decide +kernel

/-- any other node (≤ 0 — negative nodes do not wrap — or ≥ length) is refused with `ValueError` -/
theorem split_refused (tr : Track) (node : Int) (h : node ≤ 0 ∨ (tr.len : Int) ≤ node) :
    tr.split node = .error .value := split_outside tr node h

example : (⟨[(0, 1), (1, 2)], none, none⟩ : Track).split (-1) = .error .value := by decide +kernel

/-- **Splitting conserves the track**: whenever `_split` succeeds, both parts are non-empty, their
    concatenation is the original node list (and count list), and the minimum duration is kept. -/
theorem split_conserves (tr : Track) (node : Int) (b a : Track) (h : tr.split node = .ok (b, a)) :
    b.pts ++ a.pts = tr.pts ∧ b.pts ≠ [] ∧ a.pts ≠ [] ∧
    b.minDur = tr.minDur ∧ a.minDur = tr.minDur ∧
    (0 < node ∧ node < tr.len ∧ (b.len : Int) = node) ∧
    (match tr.counts with
     | none => b.counts = none ∧ a.counts = none
     | some c => ∃ cb ca, b.counts = some cb ∧ a.counts = some ca ∧ cb ++ ca = c) := by
  by_cases hin : 0 < node ∧ node < tr.len
  · obtain ⟨n, rfl⟩ : ∃ n : Nat, node = n := ⟨node.toNat, by omega⟩
    have h0 : 0 < n := by omega
    have h1 : n < tr.len := by omega
    rw [split_inside tr n h0 h1] at h
    injection h with h
    injection h with hb ha
    subst hb ha
    unfold Track.len at h1
    refine ⟨List.take_append_drop n tr.pts, ?_, ?_, rfl, rfl, ⟨hin.1, hin.2, ?_⟩, ?_⟩
    · intro hnil
      have := congrArg List.length hnil
      simp only [Track.takeN, List.length_take, List.length_nil] at this
      omega
    · intro hnil
      have := congrArg List.length hnil
      simp only [Track.dropN, List.length_drop, List.length_nil] at this
      omega
    · simp only [Track.takeN, Track.len, List.length_take]; omega
    · cases hc : tr.counts with
      | none => simp [Track.takeN, Track.dropN, hc]
      | some c => exact ⟨c.take n, c.drop n, by simp [Track.takeN, hc], by simp [Track.dropN, hc],
          List.take_append_drop n c⟩
  · rw [split_outside tr node (by omega)] at h
    cases h

example : ∃ b a, (⟨[(0, 1), (1, 2), (3, 4)], none, none⟩ : Track).split 1 = .ok (b, a) :=
  ⟨⟨[(0, 1)], none, none⟩, ⟨[(1, 2), (3, 4)], none, none⟩, by decide +kernel⟩

/-- `_split_track`: the split track is removed, the two parts are appended (each only if it has at
    least `min_length` nodes), every other track of the group is untouched. -/
theorem splitTrack_spec (g : List Track) (i : Nat) (tr : Track) (hi : g[i]? = some tr) (n : Nat)
    (h0 : 0 < n) (h1 : n < tr.len) (minLen : Int) :
    splitTrack g i n minLen
      = .ok (g.eraseIdx i ++ [tr.takeN n, tr.dropN n].filter fun t => decide (minLen ≤ (t.len : Int))) := by
  unfold splitTrack
  simp [hi, split_inside tr n h0 h1]

example : splitTrack [⟨[(0, 1), (1, 2), (3, 4)], none, none⟩, ⟨[(5, 5)], none, none⟩] 0 1 2
    = .ok [⟨[(5, 5)], none, none⟩, ⟨[(1, 2), (3, 4)], none, none⟩] := by decide +kernel

/-- a refused split leaves no new group (the caller's group is unchanged) -/
theorem splitTrack_refused (g : List Track) (i : Nat) (tr : Track) (hi : g[i]? = some tr) (node : Int)
    (h : node ≤ 0 ∨ (tr.len : Int) ≤ node) (minLen : Int) :
    splitTrack g i node minLen = .error .value := by
  unfold splitTrack
  simp [hi, split_outside tr node h]

/-! ## merging -/

/-- what `_merge_tracks` builds: `a` up to and including node `na`, then `b` from node `nb` on -/
def mergedTrack (a b : Track) (na nb : Nat) : Track :=
  ⟨a.pts.take (na + 1) ++ b.pts.drop nb, a.minDur,
   match a.counts, b.counts with
   | some x, some y => some (x.take (na + 1) ++ y.drop nb)
   | _, _ => none⟩

theorem merge_add_eq (a b : Track) (na nb : Nat) :
    (a.slice none (some ((na : Int) + 1))).add (b.slice (some (nb : Int)) none) = mergedTrack a b na nb := by
  have : ((na : Int) + 1) = ((na + 1 : Nat) : Int) := by omega
  rw [this, slice_take, slice_drop]
  unfold Track.add Track.takeN Track.dropN mergedTrack
  cases a.counts <;> cases b.counts <;> simp

/-- **Merging conserves what it does not discard.**  Connecting node `ni` of track `i` (earlier scan
    line) with node `nj` of track `j` (later scan line) replaces track `i` by its nodes up to and
    including `ni` followed by the nodes of track `j` from `nj` on, removes track `j` (if it is a
    different track) and touches nothing else. -/
theorem merge_conserves_undiscarded (g : List Track) (i j ni nj : Nat) (a b : Track) (pa pb : Pt)
    (ha : g[i]? = some a) (hb : g[j]? = some b) (hpa : a.pts[ni]? = some pa) (hpb : b.pts[nj]? = some pb)
    (hlt : pa.1 < pb.1) :
    mergeTracks g i ni j nj
      = .ok (if i = j then g.set i (mergedTrack a b ni nj)
             else (g.set i (mergedTrack a b ni nj)).eraseIdx j) := by
  unfold mergeTracks
  simp only [ha, hb, pyIndex_nat, hpa, hpb]
  have h1 : ¬ pa.1 = pb.1 := by omega
  have h2 : ¬ pa.1 > pb.1 := by omega
  simp only [h1, h2, if_false, decide_false, Bool.false_eq_true, merge_add_eq]

example : mergeTracks [⟨[(0, 1), (1, 2), (2, 3)], some 1, none⟩, ⟨[(4, 5), (6, 7), (7, 8)], none, none⟩] 0 1 1 1
    = .ok [⟨[(0, 1), (1, 2), (6, 7), (7, 8)], some 1, none⟩] := by decide +kernel

/-- the arguments may be given in either order: the earlier node always becomes the start -/
theorem merge_symmetric (g : List Track) (i j ni nj : Nat) (a b : Track) (pa pb : Pt)
    (ha : g[i]? = some a) (hb : g[j]? = some b) (hpa : a.pts[ni]? = some pa) (hpb : b.pts[nj]? = some pb)
    (hgt : pb.1 < pa.1) :
    mergeTracks g i ni j nj = mergeTracks g j nj i ni := by
  unfold mergeTracks
  simp only [ha, hb, pyIndex_nat, hpa, hpb]
  have h1 : ¬ pa.1 = pb.1 := by omega
  have h1' : ¬ pb.1 = pa.1 := by omega
  have h2 : pa.1 > pb.1 := by omega
  have h3 : ¬ pb.1 > pa.1 := by omega
  simp only [h1, h1', h2, h3, if_false, if_true, decide_true, decide_false, Bool.false_eq_true]

example : mergeTracks [⟨[(4, 5), (6, 7)], none, none⟩, ⟨[(0, 1), (1, 2)], some 1, none⟩] 0 1 1 0
    = .ok [⟨[(0, 1), (6, 7)], some 1, none⟩] := by decide +kernel

/-- two nodes on the same scan line cannot be connected (`ValueError`) -/
theorem merge_same_frame_refused (g : List Track) (i j ni nj : Nat) (a b : Track) (pa pb : Pt)
    (ha : g[i]? = some a) (hb : g[j]? = some b) (hpa : a.pts[ni]? = some pa) (hpb : b.pts[nj]? = some pb)
    (heq : pa.1 = pb.1) :
    mergeTracks g i ni j nj = .error .value := by
  unfold mergeTracks
  simp only [ha, hb, pyIndex_nat, hpa, hpb, heq, if_true]

example : mergeTracks [⟨[(4, 5)], none, none⟩, ⟨[(4, 1)], none, none⟩] 0 0 1 0 = .error .value := by
  decide +kernel

/-- no other track changes: every track of the group other than the two that were connected is
    still a member of the result, and the result has one track fewer (none fewer when a track is
    connected with itself). -/
theorem merge_others_unchanged (g : List Track) (i j ni nj : Nat) (a b : Track) (pa pb : Pt)
    (ha : g[i]? = some a) (hb : g[j]? = some b) (hpa : a.pts[ni]? = some pa) (hpb : b.pts[nj]? = some pb)
    (hlt : pa.1 < pb.1) :
    ∃ r, mergeTracks g i ni j nj = .ok r ∧
      r.length = (if i = j then g.length else g.length - 1) ∧
      ∀ m tr, m ≠ i → m ≠ j → g[m]? = some tr → tr ∈ r := by
  refine ⟨_, merge_conserves_undiscarded g i j ni nj a b pa pb ha hb hpa hpb hlt, ?_, ?_⟩
  · have hj : j < g.length := by
      rcases List.getElem?_eq_some_iff.1 hb with ⟨h, _⟩; exact h
    split
    · simp
    · rw [List.length_eraseIdx]; simp [hj]
  · intro m tr hmi hmj hm
    have hset : (g.set i (mergedTrack a b ni nj))[m]? = some tr := by
      rw [List.getElem?_set_ne (Ne.symm hmi)]; exact hm
    split
    · exact List.mem_of_getElem? hset
    · rw [List.mem_eraseIdx_iff_getElem?]
      exact ⟨m, hmj, hset⟩

/-- if both tracks have strictly increasing scan lines, so has the merged track -/
theorem merge_sorted (a b : Track) (na nb : Nat) (pa pb : Pt) (hpa : a.pts[na]? = some pa)
    (hpb : b.pts[nb]? = some pb) (hlt : pa.1 < pb.1) (hsa : StrictInc a.pts) (hsb : StrictInc b.pts) :
    StrictInc (mergedTrack a b na nb).pts := by
  unfold StrictInc mergedTrack at *
  simp only
  rw [List.pairwise_append]
  refine ⟨hsa.sublist (List.take_sublist _ _), hsb.sublist (List.drop_sublist _ _), ?_⟩
  intro x hx y hy
  -- x is at an index ≤ na in a, y at an index ≥ nb in b
  obtain ⟨ix, hix, rfl⟩ := List.mem_iff_getElem.1 hx
  obtain ⟨iy, hiy, rfl⟩ := List.mem_iff_getElem.1 hy
  simp only [List.length_take, List.length_drop] at hix hiy
  rw [List.getElem_take, List.getElem_drop]
  obtain ⟨hna, hpa'⟩ := List.getElem?_eq_some_iff.1 hpa
  obtain ⟨hnb, hpb'⟩ := List.getElem?_eq_some_iff.1 hpb
  have h1 : (a.pts[ix]).1 ≤ pa.1 := by
    rcases Nat.lt_or_ge ix na with h | h
    · have := List.pairwise_iff_getElem.1 hsa ix na (by omega) hna h
      rw [hpa'] at this; omega
    · have : ix = na := by omega
      subst this; rw [hpa']
  have h2 : pb.1 ≤ (b.pts[nb + iy]).1 := by
    rcases Nat.eq_zero_or_pos iy with h | h
    · subst h; simp only [Nat.add_zero]; rw [hpb']
    · have := List.pairwise_iff_getElem.1 hsb nb (nb + iy) hnb (by omega) (by omega)
      rw [hpb'] at this; omega
  omega

/-! ## filtering -/

/-- **`filter_tracks` keeps exactly the tracks meeting both thresholds**, in their original order,
    with their nodes and counts untouched, and raises each kept track's minimum observable duration
    to `max(old or 0, (L−1)·line_time, ⌈D/line_time⌉·line_time)`. -/
theorem filter_spec (lt : Rat) (L : Int) (D : Rat) (g : List Track) :
    filterTracks lt L D g
      = (g.filter fun tr => decide (L ≤ (tr.len : Int) ∧ D ≤ tr.duration lt)).map fun tr =>
          ⟨tr.pts, some (max (tr.minDur.getD 0) (max (((L - 1 : Int) : Rat) * lt) (((D / lt).ceil : Int) * lt))),
           tr.counts⟩ := by
  unfold filterTracks keepTrack minObservable
  congr 1
  congr 1
  funext tr
  simp [Bool.decide_and]

theorem filter_mem_iff (lt : Rat) (L : Int) (D : Rat) (g : List Track) (pts : List Pt) :
    pts ∈ (filterTracks lt L D g).map (·.pts)
      ↔ ∃ tr ∈ g, tr.pts = pts ∧ L ≤ (tr.len : Int) ∧ D ≤ tr.duration lt := by
  rw [filter_spec]
  simp only [List.map_map, List.mem_map, List.mem_filter, Function.comp, decide_eq_true_eq]
  constructor
  · rintro ⟨tr, ⟨h1, h2⟩, rfl⟩; exact ⟨tr, h1, rfl, h2⟩
  · rintro ⟨tr, h1, rfl, h2⟩; exact ⟨tr, ⟨h1, h2⟩, rfl⟩

/-- filtering neither reorders nor edits: the node lists that remain are a sublist of the original ones -/
theorem filter_sublist (lt : Rat) (L : Int) (D : Rat) (g : List Track) :
    ((filterTracks lt L D g).map (·.pts)).Sublist (g.map (·.pts)) := by
  rw [filter_spec, List.map_map]
  exact (List.filter_sublist (l := g)).map _

/-- the new minimum is never below the old one (“we can't unfilter tracks”) and never below either
    threshold's bound -/
theorem filter_raises_minimum (lt : Rat) (L : Int) (D : Rat) (g : List Track) (tr' : Track)
    (h : tr' ∈ filterTracks lt L D g) :
    ∃ tr ∈ g, tr'.pts = tr.pts ∧ ∃ m, tr'.minDur = some m ∧ tr.minDur.getD 0 ≤ m ∧
      ((L - 1 : Int) : Rat) * lt ≤ m ∧ ((D / lt).ceil : Int) * lt ≤ m := by
  rw [filter_spec] at h
  simp only [List.mem_map, List.mem_filter] at h
  obtain ⟨tr, ⟨htr, _⟩, rfl⟩ := h
  refine ⟨tr, htr, rfl, _, rfl, le_max_left _ _, ?_, ?_⟩
  · exact le_trans (le_max_left _ _) (le_max_right _ _)
  · exact le_trans (le_max_right _ _) (le_max_right _ _)

theorem span_ge_length (p : Pt) (ps : List Pt) (h : StrictInc (p :: ps)) :
    (ps.length : Int) ≤ ((p :: ps).getLast (by simp)).1 - p.1 := by
  induction ps generalizing p with
  | nil => simp
  | cons q rest ih =>
    have hpq : p.1 < q.1 := (List.pairwise_cons.1 h).1 q (by simp)
    have := ih q (List.pairwise_cons.1 h).2
    simp only [List.getLast_cons_cons, List.length_cons] at *
    omega

/-- **the raised minimum is a true lower bound**: every track that passes the filter (with strictly
    increasing scan lines, positive line time) lasts at least `max((L−1)·line_time, ⌈D/line_time⌉·line_time)`,
    the amount by which its minimum observable duration is raised. -/
theorem filter_min_observable_sound (lt : Rat) (hlt : 0 < lt) (L : Int) (D : Rat) (tr : Track)
    (hne : tr.pts ≠ []) (hs : StrictInc tr.pts) (hk : keepTrack lt L D tr = true) :
    minObservable lt L D ≤ tr.duration lt := by
  unfold keepTrack at hk
  simp only [Bool.and_eq_true, decide_eq_true_eq] at hk
  obtain ⟨hL, hD⟩ := hk
  cases hp : tr.pts with
  | nil => exact absurd hp hne
  | cons p ps =>
    rw [hp] at hs
    have hspan := span_ge_length p ps hs
    have hdur : tr.duration lt = lt * ((((p :: ps).getLast (by simp)).1 - p.1 : Int) : Rat) := by
      unfold Track.duration
      rw [hp]
      simp only [List.head?_cons, Option.map_some, Option.getD_some, List.getLast?_eq_some_getLast (l := p :: ps) (by simp)]
      push_cast
      ring
    rw [hdur] at hD ⊢
    generalize hk' : (((p :: ps).getLast (by simp)).1 - p.1 : Int) = k at *
    have hlen : (tr.len : Int) = ps.length + 1 := by simp [Track.len, hp]
    unfold minObservable
    apply max_le
    · have h1 : L - 1 ≤ k := by omega
      have h2 : ((L - 1 : Int) : Rat) ≤ (k : Rat) := by exact_mod_cast h1
      calc ((L - 1 : Int) : Rat) * lt ≤ (k : Rat) * lt := by
            exact mul_le_mul_of_nonneg_right h2 (le_of_lt hlt)
        _ = lt * (k : Rat) := by ring
    · have h1 : D / lt ≤ (k : Rat) := by
        rw [div_le_iff₀ hlt]; linarith
      have h2 : (D / lt).ceil ≤ k := Rat.ceil_le_iff.2 h1
      have h3 : (((D / lt).ceil : Int) : Rat) ≤ (k : Rat) := by exact_mod_cast h2
      calc (((D / lt).ceil : Int) : Rat) * lt ≤ (k : Rat) * lt := by
            exact mul_le_mul_of_nonneg_right h3 (le_of_lt hlt)
        _ = lt * (k : Rat) := by ring

example : keepTrack (1 / 8) 3 (1 / 5) ⟨[(0, 1), (2, 2), (3, 3)], none, none⟩ = true := by decide +kernel

example : filterTracks (1 / 8) 2 (1 / 5)
      [⟨[(0, 1), (1, 2)], none, none⟩, ⟨[(0, 1), (2, 2), (3, 3)], some (1 / 2), some [1, 2, 3]⟩, ⟨[(9, 1)], none, none⟩]
    = [⟨[(0, 1), (2, 2), (3, 3)], some (1 / 2), some [1, 2, 3]⟩] := by decide +kernel

example : filterTracks (1 / 8) 3 (1 / 5) [⟨[(0, 1), (2, 2), (3, 3)], none, none⟩]
    = [⟨[(0, 1), (2, 2), (3, 3)], some (1 / 4), none⟩] := by decide +kernel

/-! ## interpolation -/

theorem tmax_sorted (p : Pt) (ps : List Pt) (h : StrictInc (p :: ps)) :
    tmax (p :: ps) = ((p :: ps).getLast (by simp)).1 := by
  induction ps generalizing p with
  | nil => simp [tmax]
  | cons q rest ih =>
    have hpq : p.1 < q.1 := (List.pairwise_cons.1 h).1 q (by simp)
    rw [tmax_cons_cons p q rest hpq, ih q (List.pairwise_cons.1 h).2]
    simp

/-- the interpolated track has one node on every scan line from the first to the last one -/
theorem interpolate_times (p : Pt) (ps : List Pt) (h : StrictInc (p :: ps)) :
    (interpolate (p :: ps)).map (·.1) = arange p.1 (((p :: ps).getLast (by simp)).1 + 1) := by
  rw [interpolate_times_eq, tmin_sorted p ps h, tmax_sorted p ps h]

/-- **interpolation keeps the original nodes** (same scan line, same coordinate, same order) -/
theorem interpolate_keeps_original (pts : List Pt) (h : StrictInc pts) :
    pts.Sublist (interpolate pts) := by
  induction pts with
  | nil => exact List.nil_sublist _
  | cons p ps ih =>
    cases ps with
    | nil => rw [interpolate_single]
    | cons q rest =>
      have hpq : p.1 < q.1 := (List.pairwise_cons.1 h).1 q (by simp)
      rw [interpolate_cons_cons p q rest h, segment_head p q hpq, List.cons_append]
      exact List.Sublist.cons_cons p
        ((ih (List.pairwise_cons.1 h).2).trans (List.sublist_append_right _ _))

/-- **added nodes lie on the straight segment between their neighbours**: every node of the result
    is an original node, or lies strictly between two consecutive original nodes `p`, `q` on the line
    through them. -/
theorem interpolate_on_segment (pts : List Pt) (h : StrictInc pts) (hne : pts ≠ []) :
    ∀ r ∈ interpolate pts, r ∈ pts ∨
      ∃ l₁ p q l₂, pts = l₁ ++ p :: q :: l₂ ∧ p.1 < r.1 ∧ r.1 < q.1 ∧ Collinear p q r := by
  induction pts with
  | nil => exact absurd rfl hne
  | cons p ps ih =>
    cases ps with
    | nil => intro r hr; rw [interpolate_single] at hr; exact Or.inl hr
    | cons q rest =>
      have hpq : p.1 < q.1 := (List.pairwise_cons.1 h).1 q (by simp)
      intro r hr
      rw [interpolate_cons_cons p q rest h, List.mem_append] at hr
      rcases hr with hr | hr
      · simp only [segment, List.mem_map] at hr
        obtain ⟨x, hx, rfl⟩ := hr
        rw [mem_arange] at hx
        by_cases hxp : x = p.1
        · left
          subst hxp
          have : lin p q p.1 = p.2 := by unfold lin; simp
          rw [this]; simp
        · right
          exact ⟨[], p, q, rest, rfl, by simp only; omega, hx.2, lin_collinear p q x hpq⟩
      · rcases ih (List.pairwise_cons.1 h).2 (by simp) r hr with hm | ⟨l₁, p', q', l₂, he, h1, h2, h3⟩
        · exact Or.inl (List.mem_cons_of_mem _ hm)
        · exact Or.inr ⟨p :: l₁, p', q', l₂, by rw [he]; rfl, h1, h2, h3⟩

example : interpolate [(0, 1), (2, 2), (3, 5)] = [(0, 1), (1, 3 / 2), (2, 2), (3, 5)] := by decide +kernel
example : StrictInc [(0, 1), (2, 2), (3, 5)] := by unfold StrictInc; decide

/-! ## refinement -/

/-- **centroid refinement keeps the number of tracks, fills exactly the scan lines between each
    track's first and last node, and keeps the minimum durations** — whatever the numerical centroid
    estimate `refineCoord` and the image sampler do. -/
theorem refine_fills_span (refineCoord : Int → Rat → Rat) (sample : Int → Rat → Int) (g : List Track) :
    (refineCentroid refineCoord sample g).length = g.length ∧
    ∀ (i : Nat) (tr : Track), g[i]? = some tr → ∃ tr' : Track, (refineCentroid refineCoord sample g)[i]? = some tr' ∧
      tr'.times = arange (tmin tr.pts) (tmax tr.pts + 1) ∧ tr'.minDur = tr.minDur ∧
      ∃ c, tr'.counts = some c ∧ c.length = tr'.len := by
  refine ⟨by simp [refineCentroid], ?_⟩
  intro i tr hi
  let pts' : List Pt := (interpolate tr.pts).map fun p => (p.1, refineCoord p.1 p.2)
  refine ⟨⟨pts', tr.minDur, some (pts'.map fun p => sample p.1 p.2)⟩, ?_, ?_, rfl, _, rfl, ?_⟩
  · simp only [refineCentroid, List.getElem?_map, hi, Option.map_some, pts']
  · simp only [Track.times, pts', List.map_map]
    rw [← interpolate_times_eq tr.pts]
    rfl
  · simp [Track.len]

/-- for tracks with strictly increasing scan lines the span is `[first … last]` -/
theorem refine_span_sorted (p : Pt) (ps : List Pt) (h : StrictInc (p :: ps)) :
    arange (tmin (p :: ps)) (tmax (p :: ps) + 1) = arange p.1 (((p :: ps).getLast (by simp)).1 + 1) := by
  rw [tmin_sorted p ps h, tmax_sorted p ps h]

example : refineSpan [⟨[(2, 1), (5, 2)], none, none⟩, ⟨[(7, 0)], none, none⟩] = [[2, 3, 4, 5], [7]] := by
  decide +kernel

/-- **Gaussian refinement adds no line outside the span**: every returned track stems from an input
    track, has its minimum duration, is non-empty, and all its scan lines lie between that track's
    first and last line (whatever the overlap strategy, window and `refine_missing_frames`); without
    `refine_missing_frames` its lines are a sublist of the input track's own lines. -/
theorem gaussian_within_span (skip : Bool) (w : Int) (missing : Bool) (g : List Track) :
    (gaussianTimes skip w missing g).length ≤ g.length ∧
    ∀ r ∈ gaussianTimes skip w missing g, r.1 ≠ [] ∧ ∃ tr ∈ g, r.2 = tr.minDur ∧
      (∀ t ∈ r.1, tmin tr.pts ≤ t ∧ t ≤ tmax tr.pts) ∧ (missing = false → r.1.Sublist tr.times) := by
  constructor
  · unfold gaussianTimes
    refine le_trans (List.length_filter_le _ _) ?_
    cases missing <;> simp
  · intro r hr
    unfold gaussianTimes at hr
    simp only [List.mem_filter, List.mem_map] at hr
    obtain ⟨⟨p, hp, rfl⟩, hne⟩ := hr
    refine ⟨by simpa using hne, ?_⟩
    have hm : p.1 ∈ (List.zipIdx (if missing = true then g.map Track.interpolate else g)).map Prod.fst :=
      List.mem_map_of_mem hp
    rw [List.zipIdx_map_fst] at hm
    cases missing with
    | false =>
      simp only [Bool.false_eq_true, if_false] at hm
      refine ⟨p.1, hm, rfl, ?_, fun _ => List.filter_sublist⟩
      intro t ht
      have ht' : t ∈ p.1.times := (List.mem_filter.1 ht).1
      simp only [Track.times, List.mem_map] at ht'
      obtain ⟨q, hq, rfl⟩ := ht'
      exact tmin_le_tmax_mem p.1.pts q hq
    | true =>
      simp only [if_true, List.mem_map] at hm
      obtain ⟨tr, htr, hp1⟩ := hm
      refine ⟨tr, htr, by rw [← hp1]; rfl, ?_, fun h => by cases h⟩
      intro t ht
      have ht' : t ∈ p.1.times := (List.mem_filter.1 ht).1
      rw [← hp1] at ht'
      simp only [Track.times, Track.interpolate] at ht'
      rw [interpolate_times_eq, mem_arange] at ht'
      omega

example : gaussianTimes true 1 true [⟨[(0, 1), (1, 2), (3, 4)], none, none⟩, ⟨[(2, 3), (5, 3)], some 1, none⟩]
    = [([0, 1], none), ([4, 5], some 1)] := by decide +kernel

/-! ## removing tracks in a rectangle -/

/-- `remove_tracks_in_rect` only removes whole tracks -/
theorem removeInRect_sublist (k : Kymo) (r : Rect) (all : Bool) (g : List Track) :
    (removeInRect k r all g).Sublist g := List.filter_sublist

end Verif.C17
