/-
  Line-protocol helpers shared by all model drivers (Mathlib-free).
  Tokens are separated by single spaces.  Integers in decimal, `N` = Python `None`,
  lists `[a,b,c]`, lists of lists `[a,b;c,d]`, rationals `p/q`, doubles as the decimal
  value of their IEEE bit pattern prefixed by `b` (`b4607182418800017408` = 1.0).
-/
namespace Verif.Proto

def splitTokens (line : String) : List String :=
  (line.trimAscii.toString.splitOn " ").filter (· ≠ "")

def int? (s : String) : Option Int := s.toInt?
def nat? (s : String) : Option Nat := s.toNat?

def optInt? (s : String) : Option (Option Int) :=
  if s == "N" then some none else (s.toInt?).map some

def bool? (s : String) : Option Bool :=
  if s == "T" then some true else if s == "F" then some false else none

def stripBrackets? (s : String) : Option String :=
  if s.startsWith "[" && s.endsWith "]" then some ((s.drop 1).dropEnd 1).toString else none

def listOf? {α} (p : String → Option α) (s : String) : Option (List α) := do
  let inner ← stripBrackets? s
  if inner == "" then pure [] else (inner.splitOn ",").mapM p

def intList? : String → Option (List Int) := listOf? int?
def natList? : String → Option (List Nat) := listOf? nat?
def optIntList? : String → Option (List (Option Int)) := listOf? optInt?

/-- `[a,b;c,d]` -> `[[a,b],[c,d]]`; `[]` -> `[]`; `[;]` -> `[[],[]]`. -/
def listListOf? {α} (p : String → Option α) (s : String) : Option (List (List α)) := do
  let inner ← stripBrackets? s
  if inner == "" then pure []
  else (inner.splitOn ";").mapM fun row =>
    if row == "" then pure [] else (row.splitOn ",").mapM p

def intListList? : String → Option (List (List Int)) := listListOf? int?

def rat? (s : String) : Option Rat :=
  match s.splitOn "/" with
  | [p] => (p.toInt?).map fun n => (n : Rat)
  | [p, q] => do
    let n ← p.toInt?
    let d ← q.toNat?
    if d = 0 then none else some ((n : Rat) / (d : Rat))
  | _ => none

def ratList? : String → Option (List Rat) := listOf? rat?
def ratListList? : String → Option (List (List Rat)) := listListOf? rat?

def float? (s : String) : Option Float :=
  if s.startsWith "b" then ((s.drop 1).toString.toNat?).map fun n => Float.ofBits n.toUInt64 else none
def floatList? : String → Option (List Float) := listOf? float?

def showInt (i : Int) : String := toString i
def showOptInt : Option Int → String
  | none => "N"
  | some i => toString i
def showList {α} (f : α → String) (l : List α) : String := "[" ++ ",".intercalate (l.map f) ++ "]"
def showIntList (l : List Int) : String := showList showInt l
def showNatList (l : List Nat) : String := showList toString l
def showListList {α} (f : α → String) (l : List (List α)) : String :=
  "[" ++ ";".intercalate (l.map fun r => ",".intercalate (r.map f)) ++ "]"
def showRat (r : Rat) : String := toString r.num ++ "/" ++ toString r.den
def showRatList (l : List Rat) : String := showList showRat l
def showFloat (f : Float) : String := if f.isNaN then "nan" else "b" ++ toString f.toBits.toNat
def showFloatList (l : List Float) : String := showList showFloat l
def showBool (b : Bool) : String := if b then "T" else "F"

end Verif.Proto
