/-
  The `ℝ` reading of `RealLike` (noncomputable; for proof files only — never imported by a model).
-/
import Verif.Num
import Mathlib.Analysis.SpecialFunctions.Sqrt
import Mathlib.Analysis.SpecialFunctions.Pow.Real
import Mathlib.Analysis.SpecialFunctions.Trigonometric.Inverse
import Mathlib.Analysis.SpecialFunctions.Trigonometric.Arctan
import Mathlib.Analysis.SpecialFunctions.Log.Basic
import Mathlib.Analysis.SpecialFunctions.Trigonometric.DerivHyp

namespace Verif

/-- real cube root, odd extension of `x ^ (1/3)` (this is what `np.cbrt` computes) -/
noncomputable def Real.cbrt (x : ℝ) : ℝ := if 0 ≤ x then x ^ ((1:ℝ)/3) else -((-x) ^ ((1:ℝ)/3))

open Classical in
noncomputable instance : RealLike ℝ where
  sqrt := Real.sqrt
  cbrt := Verif.Real.cbrt
  exp := Real.exp
  log := Real.log
  sin := Real.sin
  cos := Real.cos
  tanh := Real.tanh
  arcsin := Real.arcsin
  arctan := Real.arctan
  abs := fun x => |x|
  pi := Real.pi
  lt a b := decide (a < b)
  le a b := decide (a ≤ b)

theorem Real.cbrt_cube (x : ℝ) : Real.cbrt x * Real.cbrt x * Real.cbrt x = x := by
  unfold Real.cbrt
  split
  · rename_i h
    have : x ^ ((1:ℝ)/3) * x ^ ((1:ℝ)/3) * x ^ ((1:ℝ)/3) = x := by
      rw [← Real.rpow_add' h (by norm_num), ← Real.rpow_add' h (by norm_num)]
      norm_num
    exact this
  · rename_i h
    have h' : 0 ≤ -x := by linarith
    have : (-x) ^ ((1:ℝ)/3) * (-x) ^ ((1:ℝ)/3) * (-x) ^ ((1:ℝ)/3) = -x := by
      rw [← Real.rpow_add' h' (by norm_num), ← Real.rpow_add' h' (by norm_num)]
      norm_num
    nlinarith [this]

end Verif
