/-
  `RealLike`: the numeric operations a formula needs, so that ONE definition of each formula is
  executed at `Float` (driver, correspondence with the implementation) and reasoned about at `ℝ`
  (theorems, in proof files that `import Verif.NumReal`).  Mathlib-free.

  Conventions (see DESIGN.md §2.2 and the notes in BUILDING.md):
  * never declare an `OfNat α n` instance from this class (it hijacks `ℝ` numerals in proof files);
    write literals as scientific literals (`2.0`, `0.25`, `1.0e-9`) which go through `OfScientific`;
  * comparisons used by the code (`det ≥ 0`, masks) go through `RealLike.lt/le` (Bool-valued).
-/
namespace Verif

class RealLike (α : Type) extends Add α, Sub α, Mul α, Div α, Neg α, OfScientific α where
  sqrt : α → α
  cbrt : α → α
  exp : α → α
  log : α → α
  sin : α → α
  cos : α → α
  tanh : α → α
  arcsin : α → α
  arctan : α → α
  abs : α → α
  pi : α
  /-- `a < b` as the executing number type decides it -/
  lt : α → α → Bool
  /-- `a ≤ b` -/
  le : α → α → Bool

instance : RealLike Float where
  sqrt := Float.sqrt
  cbrt := Float.cbrt
  exp := Float.exp
  log := Float.log
  sin := Float.sin
  cos := Float.cos
  tanh := Float.tanh
  arcsin := Float.asin
  arctan := Float.atan
  abs := Float.abs
  pi := 3.141592653589793
  lt a b := a < b
  le a b := a ≤ b

namespace RealLike
variable {α : Type} [RealLike α]
/-- `x²` -/
def sq (x : α) : α := x * x
/-- `x³` -/
def cube (x : α) : α := x * x * x
/-- `np.clip(x, lo, hi)` -/
def clip (x lo hi : α) : α := if lt x lo then lo else if lt hi x then hi else x
/-- natural power by repeated multiplication (`x ** n` for a literal `n ≥ 1`) -/
def npow (x : α) : Nat → α
  | 0 => 1.0
  | 1 => x
  | n + 1 => npow x n * x
def sum (l : List α) : α := l.foldl (· + ·) 0.0
end RealLike

end Verif
