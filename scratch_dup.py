import sys
sys.path.insert(0, "/repo")
import numpy as np
from lumicks import pylake
from lumicks.pylake.fitting.detail.derivative_manipulation import numerical_jacobian
m = pylake.ewlc_odijk_distance("DNA") + pylake.ewlc_odijk_distance("prot")
fit = pylake.FdFit(m)
f = np.array([5.0, 10.0, 20.0])
d = np.array([1.0, 1.1, 1.2])
fit.add_data("a", f, d, params={"prot/Lp": "DNA/Lp"})
print(list(fit.params.keys()))
p = np.array(fit.params.values, dtype=float)
p[:] = [40.0, 16.0, 1500.0, 4.11, 2.0, 800.0][:len(p)]
J = fit._calculate_jacobian(p)
Jn = numerical_jacobian(fit._calculate_residual, p, 1e-6).T
print(J); print(Jn)
print(fit.verify_jacobian(p))
