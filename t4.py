import sys, json, collections, traceback
sys.path.insert(0, "/tmp/vw/C19/harness"); sys.path.insert(0, "/repo")
import common, c19, numpy as np
f = c19.family("channel")
o = f.build({"kind":"cont","data":[1.,2.,3.],"start":c19.T0,"dt":7,"h5":True})
try:
    print(o.data, o.start)
    print(o[c19.T0:c19.T0+8].data)
    print((o*2.0).data)
except Exception: traceback.print_exc()
o = f.build({"kind":"ts","data":[1.,2.,3.],"ts":[c19.T0+1,c19.T0+3,c19.T0+9]})
try:
    print(o.downsampled_by(2).data)
except Exception: traceback.print_exc()
