import Verif.Lemmas.C04
namespace Verif.C04
open Verif.Py

/-- The code as it is keeps only windows inside the source span whenever no window is longer than the
    first one (constant reference period, or a frame rate that only goes up). -/
theorem like_within_span' (c : Cont) (T : List Int) (hs : T.Pairwise (· < ·))
    (hδ : ∀ p ∈ T.zip (likeDeltas T), p.2 ≤ (likeDeltas T).headD 0) :
    ∀ p ∈ likeKept false c T, c.start ≤ p.1 - p.2 ∧ p.1 < c.stop := by
  intro p hp
  rw [likeKept_spec' c T hs, List.mem_filter] at hp
  obtain ⟨hm, hc⟩ := hp
  simp only [Bool.and_eq_true, decide_eq_true_eq] at hc
  have := hδ p hm
  omega

/-- The proposed repair (`pw = true`: `searchsorted(T - δ, start)`): when the window starts are in
    order, the kept reference samples are exactly those whose own window lies inside the source span. -/
theorem likeKept_repaired' (c : Cont) (T : List Int) (hs : T.Pairwise (· < ·))
    (hw : (T.zip (likeDeltas T)).Pairwise (fun a b => a.1 - a.2 ≤ b.1 - b.2)) :
    likeKept true c T = (T.zip (likeDeltas T)).filter fun p =>
      decide (c.start ≤ p.1 - p.2) && decide (p.1 < c.stop) := by
  unfold likeKept likeStart
  rw [C01.pySlice_nonneg _ _ _ (by omega) (by omega)]
  simp only [Int.toNat_natCast, if_true, searchsortedLeft]
  rw [← List.map_uncurry_zip_eq_zipWith]
  generalize hZ : T.zip (likeDeltas T) = Z at *
  have hT : T = Z.map (·.1) := by rw [← hZ, List.map_fst_zip (likeDeltas_length T)]
  rw [hT, List.takeWhile_map, List.takeWhile_map, List.length_map, List.length_map]
  have hZs : Z.Pairwise (fun a b => a.1 < b.1) := by rw [hT, List.pairwise_map] at hs; exact hs
  rw [take_drop_takeWhile]
  · apply List.filter_congr
    intro z _
    simp only [Function.comp, Function.uncurry]
    by_cases h1 : z.1 - z.2 < c.start <;> by_cases h2 : z.1 < c.stop <;> simp [h1, h2]
    omega
  · refine hw.imp ?_
    intro a b hab h
    have h' : b.1 - b.2 < c.start := of_decide_eq_true h
    exact decide_eq_true (by omega : a.1 - a.2 < c.start)
  · refine hZs.imp ?_
    intro a b hab; simp only [Function.comp, decide_eq_true_eq]; omega
end Verif.C04
