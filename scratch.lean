import Verif.Lemmas.C04
namespace Verif.C04
open Verif.Py

theorem like_values' (pw : Bool) (f : List Rat → Rat) (c : Cont) (hdt : 0 < c.dt) (ref : Src) (ds refc : List Sample)
    (h : like pw f (.cont c) ref = .ok (ds, refc)) :
    ds = (likeKept pw c ref.timestamps).map fun (p : Int × Int) =>
      (p.1, f ((c.samples.filter (inWin (p.1 - p.2) p.1)).map (·.2))) := by
  obtain ⟨c', r, hc, rfl, hds, _⟩ := like_ok pw f _ ref ds refc h
  cases hc
  rw [hds]; unfold likeWindows
  simp only [List.map_map, Src.timestamps]
  apply List.map_congr_left
  intro x _
  simp only [Function.comp]
  rw [getitem_samples' (.cont c) hdt]
  rfl

/-- For a predicate that can only switch from true to false along the list, `takeWhile` is `filter`. -/
theorem take_takeWhile_eq_filter {α} (p : α → Bool) :
    ∀ (Z : List α), Z.Pairwise (fun x y => p y = true → p x = true) →
      Z.take (Z.takeWhile p).length = Z.filter p := by
  intro Z
  induction Z with
  | nil => intro _; rfl
  | cons x xs ih =>
    intro H
    obtain ⟨hx, hxs⟩ := List.pairwise_cons.mp H
    by_cases hp : p x = true
    · simp [hp, ih hxs]
    · have : xs.filter p = [] := by
        rw [List.filter_eq_nil_iff]; intro y hy hpy; exact hp (hx y hy hpy)
      simp [hp, this]

/-- Two threshold predicates along a list: `l[i:j]` with `i`, `j` the lengths of the prefixes on which
    they hold is the filter "not the first, but the second". -/
theorem take_drop_takeWhile {α} (p1 p2 : α → Bool) :
    ∀ (Z : List α), Z.Pairwise (fun x y => p1 y = true → p1 x = true) →
      Z.Pairwise (fun x y => p2 y = true → p2 x = true) →
      (Z.take (Z.takeWhile p2).length).drop (Z.takeWhile p1).length = Z.filter (fun z => !p1 z && p2 z) := by
  intro Z
  induction Z with
  | nil => intro _ _; rfl
  | cons x xs ih =>
    intro H1 H2
    obtain ⟨hx1, hxs1⟩ := List.pairwise_cons.mp H1
    obtain ⟨hx2, hxs2⟩ := List.pairwise_cons.mp H2
    by_cases hp2 : p2 x = true
    · by_cases hp1 : p1 x = true
      · simp [hp1, hp2, ih hxs1 hxs2]
      · have hnone : ∀ y ∈ xs, p1 y = false := by
          intro y hy
          cases hpy : p1 y with
          | false => rfl
          | true => exact absurd (hx1 y hy hpy) hp1
        have hf : xs.filter (fun z => !p1 z && p2 z) = xs.filter p2 := by
          apply List.filter_congr
          intro y hy; simp [hnone y hy]
        simp [hp1, hp2, hf, take_takeWhile_eq_filter p2 xs hxs2]
    · have : (x :: xs).filter (fun z => !p1 z && p2 z) = [] := by
        rw [List.filter_eq_nil_iff]
        intro y hy hpy
        simp only [Bool.and_eq_true] at hpy
        rcases List.mem_cons.mp hy with rfl | hy'
        · exact hp2 hpy.2
        · exact hp2 (hx2 y hy' hpy.2)
      rw [this]
      simp [List.takeWhile_cons, hp2]

/-- Which reference samples are kept, as the code is (`pw = false`): for a sorted reference exactly
    those with `T - δ₀ ≥ start` (δ₀ = the FIRST window length) and `T < stop`. -/
theorem likeKept_spec' (c : Cont) (T : List Int) (hs : T.Pairwise (· < ·)) :
    likeKept false c T = (T.zip (likeDeltas T)).filter fun p =>
      decide (c.start ≤ p.1 - (likeDeltas T).headD 0) && decide (p.1 < c.stop) := by
  unfold likeKept likeStart
  rw [C01.pySlice_nonneg _ _ _ (by omega) (by omega)]
  simp only [Int.toNat_natCast, Bool.false_eq_true, if_false, searchsortedLeft]
  generalize hZ : T.zip (likeDeltas T) = Z
  generalize (likeDeltas T).headD 0 = d0
  have hT : T = Z.map (·.1) := by rw [← hZ, List.map_fst_zip (likeDeltas_length T)]
  rw [hT, List.map_map, List.takeWhile_map, List.takeWhile_map, List.length_map, List.length_map]
  have hZs : Z.Pairwise (fun a b => a.1 < b.1) := by rw [hT, List.pairwise_map] at hs; exact hs
  rw [take_drop_takeWhile]
  · apply List.filter_congr
    intro z _
    simp only [Function.comp]
    by_cases h1 : z.1 - d0 < c.start <;> by_cases h2 : z.1 < c.stop <;> simp [h1, h2] <;> omega
  · refine hZs.imp ?_
    intro a b hab; simp only [Function.comp, decide_eq_true_eq]; omega
  · refine hZs.imp ?_
    intro a b hab; simp only [Function.comp, decide_eq_true_eq]; omega
end Verif.C04
