import Verif.Lemmas.C04
namespace Verif.C04
open Verif.Py

theorem to_is_over' (f : List Rat → Rat) (s : Src) (target step st sp : Int) (m : Method) (wh : Option Bool)
    (ht : targetStep s.timesteps target m = .ok step) (h0 : step ≠ 0)
    (hst : s.start? = some st) (hsp : s.stop? = some sp) :
    downTo f s target (some m) wh = over f s (pairs (arange st sp step)) wh := by
  unfold downTo
  simp only [ht, hst, hsp, if_neg h0]

theorem cont_span_div (c : Cont) (k : Nat) (hdt : 0 < c.dt) :
    ((c.stop - c.start) / ((k : Int) * c.dt)).toNat = c.data.length / k ∧
    ((c.stop - c.start) % ((k : Int) * c.dt) = 0 ↔ c.data.length % k = 0) := by
  have e : c.stop - c.start = c.dt * (c.data.length : Int) := by unfold Cont.stop; rw [Int.mul_comm]; omega
  rw [e, Int.mul_comm (k : Int) c.dt, Int.mul_ediv_mul_of_pos _ _ hdt, Int.mul_emod_mul_of_pos _ _ hdt]
  constructor
  · have : (c.data.length : Int) / (k : Int) = ((c.data.length / k : Nat) : Int) := by push_cast; rfl
    rw [this]; exact Int.toNat_natCast _
  · have : (c.data.length : Int) % (k : Int) = ((c.data.length % k : Nat) : Int) := by push_cast; rfl
    rw [this]
    constructor
    · intro h
      rcases Int.mul_eq_zero.mp h with h | h
      · omega
      · exact_mod_cast h
    · intro h; rw [h]; simp

theorem to_cont_nonmult (f : List Rat → Rat) (c : Cont) (k : Nat) (m : Method) (hdt : 0 < c.dt) (hk : 0 < k)
    (hn : k ≤ c.data.length) (hnm : c.data.length % k ≠ 0) :
    downTo f (.cont c) ((k : Int) * c.dt) (some m) (some true) =
      .ok ((List.range (c.data.length / k)).map fun (i : Nat) =>
        (c.start + (i : Int) * ((k : Int) * c.dt) + (((k : Int) - 1) * c.dt) / 2,
          f ((c.data.drop (i * k)).take k))) := by
  have hkd : 0 < (k : Int) * c.dt := Int.mul_pos (by omega) hdt
  obtain ⟨hq, hr⟩ := cont_span_div c k hdt
  rw [to_is_over' f (.cont c) _ _ c.start c.stop m _ (targetStep_cont c.dt k m hdt hk) (by omega) rfl rfl,
    pairs_arange_nonmult _ _ _ hkd (fun h => hnm (hr.mp h)), fullWindows, hq]
  exact over_blocks f c k _ hdt hk (Nat.div_pos hn hk) (Nat.div_mul_le_self _ _)

theorem to_cont_mult (f : List Rat → Rat) (c : Cont) (k : Nat) (m : Method) (hdt : 0 < c.dt) (hk : 0 < k)
    (hn : 2 * k ≤ c.data.length) (hnm : c.data.length % k = 0) :
    downTo f (.cont c) ((k : Int) * c.dt) (some m) (some true) =
      .ok ((List.range (c.data.length / k - 1)).map fun (i : Nat) =>
        (c.start + (i : Int) * ((k : Int) * c.dt) + (((k : Int) - 1) * c.dt) / 2,
          f ((c.data.drop (i * k)).take k))) := by
  have hkd : 0 < (k : Int) * c.dt := Int.mul_pos (by omega) hdt
  obtain ⟨hq, hr⟩ := cont_span_div c k hdt
  have h2 : 2 ≤ c.data.length / k := (Nat.le_div_iff_mul_le hk).mpr hn
  rw [to_is_over' f (.cont c) _ _ c.start c.stop m _ (targetStep_cont c.dt k m hdt hk) (by omega) rfl rfl,
    pairs_arange_mult _ _ _ hkd (hr.mpr hnm), fullWindows, hq, blockWins_dropLast]
  refine over_blocks f c k _ hdt hk (by omega) ?_
  have := Nat.div_mul_le_self c.data.length k
  have : (c.data.length / k - 1) * k ≤ c.data.length / k * k := Nat.mul_le_mul_right k (by omega)
  omega

theorem to_cont_short (f : List Rat → Rat) (c : Cont) (k : Nat) (m : Method) (wh : Option Bool) (hdt : 0 < c.dt)
    (hk : 0 < k) (hn : c.data.length ≤ k) :
    downTo f (.cont c) ((k : Int) * c.dt) (some m) wh = .error .value := by
  have hkd : 0 < (k : Int) * c.dt := Int.mul_pos (by omega) hdt
  obtain ⟨hq, hr⟩ := cont_span_div c k hdt
  rw [to_is_over' f (.cont c) _ _ c.start c.stop m _ (targetStep_cont c.dt k m hdt hk) (by omega) rfl rfl]
  have hempty : pairs (arange c.start c.stop ((k : Int) * c.dt)) = [] := by
    by_cases h : c.data.length % k = 0
    · rw [pairs_arange_mult _ _ _ hkd (hr.mpr h), fullWindows, hq, blockWins_dropLast]
      have : c.data.length / k - 1 = 0 := by
        rcases Nat.lt_or_eq_of_le hn with h1 | h1
        · rw [Nat.div_eq_of_lt h1]
        · rw [h1, Nat.div_self hk]
      rw [this]; rfl
    · rw [pairs_arange_nonmult _ _ _ hkd (fun h' => h (hr.mp h')), fullWindows, hq]
      have : c.data.length / k = 0 := by
        rcases Nat.lt_or_eq_of_le hn with h1 | h1
        · exact Nat.div_eq_of_lt h1
        · rw [h1, Nat.mod_self] at h; exact absurd rfl h
      rw [this]; rfl
  rw [hempty]; rfl
end Verif.C04
