#check @List.mergeSort
#check @List.sum
example : Rat := ([1,2,3] : List Rat).sum / (3 : Nat)
#eval ([1,2,3] : List Rat).sum / ((3 : Nat) : Rat)
#eval ([3,1,2] : List Rat).mergeSort
#eval min (1:Rat) 2
#eval (7 : Int) / 2
#eval (-7 : Int) / 2
#check @List.getLast?
#check @List.zipIdx
example : ((1:Rat)/3 + 1/3) = 2/3 := by decide
