import sys, collections
sys.path.insert(0, "harness"); sys.path.insert(0, "/repo")
import common, c07
rng = common.Rng(0)
cnt = collections.Counter()
shown = collections.Counter()
for c in c07.cases("quick", rng):
    if c["stream"] in ("kymo", "random-programs", "commute"):
        ia = c07.impl(c)
        key = (c["stream"], ia[0].split(" ")[0])
        cnt[key] += 1
        if shown[key] < 2:
            shown[key] += 1
            print(c["stream"], c.get("prog"), c["spec"]["files"], c["spec"]["colour"], "->", ia[0][:230])
print(cnt)
