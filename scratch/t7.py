import sys, os, time, collections
sys.path.insert(0,'/tmp/vw/C14/harness'); sys.path.insert(0, os.environ.get("VERIF_REPO","/repo"))
os.environ.setdefault("MPLBACKEND","Agg")
import warnings; warnings.filterwarnings("ignore")
import common, c14
seed=int(sys.argv[1]); n=int(sys.argv[2])
rng = common.Rng(seed).fork("c14-recover")
t=time.time()
cs=[c14.recover_case(rng.fork(i), slow_ok=(i%10==0)) for i in range(n)]
print("gen", time.time()-t)
res, ti, tm = common.evaluate(c14, cs)
print("impl", ti, "model", tm)
import re
nc=collections.Counter(); nd=0
for r in res:
    if r["disagree"]:
        nd+=1
        if nd<3: print("DIS", r["impl"][0][:300], r["model"][0][:300])
    if r["clause"]:
        nc[r["clause"].split(":")[0]]+=1
        print([m["ctor"] for m in r["case"]["models"]], r["clause"][:300])
print("dis", nd, dict(nc), c14.COUNTS)
