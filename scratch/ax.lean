import Verif.Props.C14
#print axioms Verif.C14.scatter_duplicate_witness
#print axioms Verif.C14.defaults_misaligned_witness
#print axioms Verif.C14.routes_agree
