import Verif.Props.C02
open Verif.C02
#print axioms pixels_cumsum_eq_spec
#print axioms pixel_is_segment_sum
#print axioms stream_decomposes
#print axioms pixel_sum_conserved
#print axioms image_total_kymo
#print axioms image_total_scan
#print axioms kymo_placement
#print axioms scan_placement_fast_higher
#print axioms scan_axes_meta
#print axioms truncated_prefix
#print axioms missing_colour_zero
#print axioms discard_irrelevant
#print axioms segment_reconstruct_dead
