import sys, os, traceback, collections
sys.path.insert(0,'/tmp/vw/C14/harness'); sys.path.insert(0,'/repo')
os.environ.setdefault("MPLBACKEND","Agg")
import warnings; warnings.filterwarnings("ignore")
import common, c14
rng = common.Rng(0).fork("c14-recover")
cs=[c14.recover_case(rng.fork(i), slow_ok=False) for i in range(400)]
cnt=collections.Counter(); worst=0
for c in cs:
    ia = c14.impl(c)
    for a,o in zip(c["actions"], ia[0].split(";")):
        if a["a"]=="fit" and not o.startswith("fit:ok"):
            cnt[o[:40]]+=1; print([m["ctor"] for m in c["models"]], o[:100]); print([ (x["name"],x["f"],x["v"]) for x in c["actions"] if x["a"]=="set"])
        if a["a"]=="query" and a.get("check"):
            T,_=c14.parse_query(o)
            for r in T:
                if not r[4] and r[0] in c["truth"]:
                    worst=max(worst, abs(float(r[1])-c["truth"][r[0]])/abs(c["truth"][r[0]]))
print(cnt, "worst rel", worst)
