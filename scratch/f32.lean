import Verif.Lemmas.C18
namespace Verif.C18
open Verif.Py

theorem ite_abs (x : Rat) : (if x < 0 then -x else x) = |x| := by
  by_cases h : x < 0
  · rw [if_pos h, abs_of_neg h]
  · rw [if_neg h, abs_of_nonneg (not_lt.mp h)]

theorem abs_eq_natAbs_div (x : Rat) : |x| = (x.num.natAbs : Rat) / (x.den : Rat) := by
  conv => lhs; rw [← Rat.num_div_den x]
  rw [abs_div, Nat.cast_natAbs, Int.cast_abs]
  congr 1
  exact abs_of_pos (by exact_mod_cast x.den_pos)

/-- `2^(ilog2 x) ≤ |x|`. -/
theorem pow2_ilog2_le (x : Rat) (hx : x ≠ 0) : pow2 (ilog2 x) ≤ |x| := by
  unfold ilog2
  simp only [ite_abs]
  split_ifs with h
  · exact h
  · have hp : x.num.natAbs ≠ 0 := by
      intro h0; exact hx (Rat.zero_of_num_zero (Int.natAbs_eq_zero.mp h0))
    have h1 : 2 ^ x.num.natAbs.log2 ≤ x.num.natAbs := Nat.log2_self_le hp
    have h2 : x.den < 2 ^ (x.den.log2 + 1) := Nat.lt_log2_self
    have h1' : ((2 : Rat) ^ x.num.natAbs.log2) ≤ (x.num.natAbs : Rat) := by exact_mod_cast h1
    have h2' : (x.den : Rat) ≤ (2 : Rat) ^ (x.den.log2 + 1) := by exact_mod_cast (le_of_lt h2)
    have hden : (0 : Rat) < (x.den : Rat) := by exact_mod_cast x.den_pos
    rw [pow2_eq_zpow, abs_eq_natAbs_div]
    have e : (2 : Rat) ^ ((x.num.natAbs.log2 : Int) - (x.den.log2 : Int) - 1) =
        (2 : Rat) ^ x.num.natAbs.log2 / (2 : Rat) ^ (x.den.log2 + 1) := by
      rw [show ((x.num.natAbs.log2 : Int) - (x.den.log2 : Int) - 1) =
        (x.num.natAbs.log2 : Int) - ((x.den.log2 + 1 : Nat) : Int) by push_cast; ring]
      rw [zpow_sub₀ (by norm_num), zpow_natCast, zpow_natCast]
    rw [e]
    calc (2 : Rat) ^ x.num.natAbs.log2 / (2 : Rat) ^ (x.den.log2 + 1)
        ≤ (x.num.natAbs : Rat) / (2 : Rat) ^ (x.den.log2 + 1) := by
          apply div_le_div_of_nonneg_right h1' (by positivity)
      _ ≤ (x.num.natAbs : Rat) / (x.den : Rat) := by
          apply div_le_div_of_nonneg_left (by positivity) hden h2'

theorem ilog2_int_le (n : Int) : ilog2 (n : Rat) ≤ (n.natAbs.log2 : Int) := by
  have h1 : ((n : Rat)).num = n := Rat.num_intCast n
  have h2 : ((n : Rat)).den = 1 := Rat.den_intCast n
  have h3 : Nat.log2 1 = 0 := by decide
  unfold ilog2
  simp only []
  split_ifs <;> (rw [h1, h2, h3]; omega)

/-- Integers below `2^24` in magnitude are float32 numbers: the cast is exact. -/
theorem roundF32_int_exact (n : Int) (h : n.natAbs < 2 ^ 24) : roundF32 (n : Rat) = (n : Rat) := by
  unfold roundF32
  by_cases h0 : (n : Rat) = 0
  · rw [if_pos h0, h0]
  · rw [if_neg h0]
    have hn : n ≠ 0 := by intro e; apply h0; rw [e]; rfl
    have hl : n.natAbs.log2 < 24 := (Nat.log2_lt (by omega)).mpr h
    have hi := ilog2_int_le n
    have hk : max (ilog2 (n : Rat)) (-126) - 23 ≤ 0 := by omega
    unfold ulpF32
    generalize max (ilog2 (n : Rat)) (-126) - 23 = k at hk
    obtain ⟨m, hm⟩ : ∃ m : Nat, k = -(m : Int) := ⟨(-k).toNat, by omega⟩
    subst hm
    rw [pow2_eq_zpow, zpow_neg, zpow_natCast]
    have e : (n : Rat) / ((2 : Rat) ^ m)⁻¹ = ((n * 2 ^ m : Int) : Rat) := by
      push_cast; field_simp
    rw [e, roundHalfEven_int]
    push_cast
    field_simp

theorem roundHalfEven_le (y : Rat) (N : Int) (h : y ≤ N) : roundHalfEven y ≤ N := by
  rcases lt_or_eq_of_le h with hlt | heq
  · have h1 := (roundHalfEven_spec y).2.2
    have : ⌊y⌋ < N := Int.floor_lt.mpr hlt
    omega
  · rw [heq, roundHalfEven_int]

theorem le_roundHalfEven (y : Rat) (N : Int) (h : (N : Rat) ≤ y) : N ≤ roundHalfEven y := by
  have h1 := (roundHalfEven_spec y).2.1
  have : N ≤ ⌊y⌋ := Int.le_floor.mpr h
  omega

theorem f32Max_lt : f32Max < (2 : Rat) ^ (128 : Int) := by
  unfold f32Max
  norm_num

/-- The float32 cast keeps a value that fits inside the float32 range (no overflow to infinity). -/
theorem roundF32_in_range (x : Rat) (h : |x| ≤ f32Max) : |roundF32 x| ≤ f32Max := by
  unfold roundF32
  by_cases h0 : x = 0
  · rw [if_pos h0]; simp; exact le_of_lt f32Max_pos
  · rw [if_neg h0]
    have hlow := pow2_ilog2_le x h0
    have hk : max (ilog2 x) (-126) - 23 ≤ 104 := by
      by_cases he : ilog2 x ≤ -126
      · omega
      · have : pow2 (ilog2 x) < (2 : Rat) ^ (128 : Int) := lt_of_le_of_lt (le_trans hlow h) f32Max_lt
        rw [pow2_eq_zpow] at this
        have := (zpow_lt_zpow_iff_right₀ (by norm_num : (1 : Rat) < 2)).mp this
        omega
    unfold ulpF32
    generalize max (ilog2 x) (-126) - 23 = k at hk
    obtain ⟨m, hm⟩ : ∃ m : Nat, k = 104 - (m : Int) := ⟨(104 - k).toNat, by omega⟩
    have hu : (0 : Rat) < pow2 k := pow2_pos k
    have hmax : f32Max = (((2 ^ 24 - 1) * 2 ^ m : Int) : Rat) * pow2 k := by
      rw [pow2_eq_zpow, hm, zpow_sub₀ (by norm_num), zpow_natCast]
      unfold f32Max
      push_cast
      field_simp
      norm_num
    generalize hN : ((2 ^ 24 - 1) * 2 ^ m : Int) = N at hmax
    have habs := abs_le.mp h
    have hy1 : x / pow2 k ≤ (N : Rat) := by
      rw [div_le_iff₀ hu, ← hmax]; exact habs.2
    have hy2 : ((-N : Int) : Rat) ≤ x / pow2 k := by
      rw [le_div_iff₀ hu]; push_cast; rw [neg_mul, ← hmax]; exact habs.1
    have r1 := roundHalfEven_le _ _ hy1
    have r2 := le_roundHalfEven _ _ hy2
    rw [abs_mul, abs_of_pos hu, hmax]
    apply mul_le_mul_of_nonneg_right _ (le_of_lt hu)
    rw [abs_le]
    constructor
    · have : ((-N : Int) : Rat) ≤ ((roundHalfEven (x / pow2 k) : Int) : Rat) := by exact_mod_cast r2
      push_cast at this; exact this
    · exact_mod_cast r1

/-- In the normal range the unit in the last place is at most `2^-23 · |x|`: relative rounding error `≤ 2^-24`. -/
theorem ulpF32_le (x : Rat) (h : pow2 (-126) ≤ |x|) : ulpF32 x ≤ |x| * pow2 (-23) := by
  have hx : x ≠ 0 := by
    intro e; rw [e, abs_zero] at h; exact absurd h (not_le.mpr (pow2_pos _))
  have hlow := pow2_ilog2_le x hx
  unfold ulpF32
  rw [pow2_eq_zpow, pow2_eq_zpow]
  rw [zpow_sub₀ (by norm_num), zpow_neg, div_eq_mul_inv]
  apply mul_le_mul_of_nonneg_right _ (by positivity)
  rcases le_total (ilog2 x) (-126) with hc | hc
  · rw [max_eq_right hc, ← pow2_eq_zpow]; exact h
  · rw [max_eq_left hc, ← pow2_eq_zpow]; exact hlow

end Verif.C18
