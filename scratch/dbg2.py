import sys, os, json
sys.path.insert(0, "/tmp/vw/C18/harness")
import common
sys.path.insert(0, common.REPO)
import c18, traceback
import builders_confocal as bc
import numpy as np
c = c18.confocal_case("scan", 4, 2, 5, 1, 2, 2, 2, 1, 0, 60, "u8", True, derive=[["cropxy", None, None, None, None]], dt=1000)
print(c18.impl(c), c["_obs"].get("derive_error"), c["_obs"].get("error"))
with bc.quiet():
    obj = c18.build_confocal(c)
    o2 = obj.crop_by_pixels(None, None, None, None)
    try:
        print(o2.get_image().shape)
        print(o2.frame_timestamp_ranges(include_dead_time=True))
    except Exception:
        traceback.print_exc()
