import sys, os, traceback, collections
sys.path.insert(0,'/tmp/vw/C14/harness'); sys.path.insert(0,'/repo')
os.environ.setdefault("MPLBACKEND","Agg")
import warnings; warnings.filterwarnings("ignore")
import common, c14
worst=collections.defaultdict(float)
for seed in (0,1,2):
    rng = common.Rng(seed).fork("c14-recover")
    cs=[c14.recover_case(rng.fork(i), slow_ok=False) for i in range(400)]
    for c in cs:
        ia = c14.impl(c)
        bounded = {(x["name"]) for x in c["actions"] if x["a"]=="set" and x["f"] in ("lb","ub") and x["v"]==c["truth"].get(x["name"])}
        for a,o in zip(c["actions"], ia[0].split(";")):
            if a["a"]=="query" and a.get("check"):
                T,_=c14.parse_query(o)
                for r in T:
                    if not r[4] and r[0] in c["truth"]:
                        e=abs(float(r[1])-c["truth"][r[0]])/abs(c["truth"][r[0]])
                        base=r[0].split("/")[-1].split("_")[0]
                        key=(base, r[0] in bounded, len(bounded)>0)
                        worst[key]=max(worst[key], e)
for k,v in sorted(worst.items()): print(k, "%.2e"%v)
