import sys, os, time, collections
sys.path.insert(0,'/tmp/vw/C14/harness'); sys.path.insert(0, os.environ.get("VERIF_REPO","/repo"))
os.environ.setdefault("MPLBACKEND","Agg")
import warnings; warnings.filterwarnings("ignore")
import common, c14
tier = sys.argv[1] if len(sys.argv)>1 else "quick"
rng = common.Rng(int(os.environ.get("VERIF_SEED","0")))
t=time.time()
cs = list(c14.cases(tier, rng))
print(len(cs), "cases generated", time.time()-t)
res, ti, tm = common.evaluate(c14, cs)
print("impl", ti, "model", tm)
nd=0; nc=collections.Counter()
for r in res:
    if r["disagree"]:
        nd+=1
        if nd<=3:
            print("DISAGREE", r["case"]["stream"]); print(r["ops"][0][:1500]); 
            ia=r["impl"][0].split(";"); ma=r["model"][0].split(" || ")[0].split(";")
            for k,(a,b) in enumerate(zip(ia,ma)):
                if a!=b: print(k, "IMPL ", a[:700]); print(k, "MODEL", b[:700]); break
    if r["clause"]:
        nc[r["clause"].split(":")[0]]+=1
        if nc[r["clause"].split(":")[0]]<=2: print("CLAUSE", r["case"]["stream"], r["clause"][:600])
print("disagreements", nd, "clauses", dict(nc), c14.VARIANT)
print(c14.COUNTS)
