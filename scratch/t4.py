import sys; sys.path.insert(0,'/repo')
import numpy as np, time
import lumicks.pylake as lk
for c in ["force_offset","distance_offset","ewlc_marko_siggia_force","ewlc_marko_siggia_distance","wlc_marko_siggia_force","wlc_marko_siggia_distance","ewlc_odijk_distance","ewlc_odijk_force","efjc_distance","efjc_force","twlc_distance","twlc_force"]:
    m = getattr(lk,c)("M")
    print(c, m.independent, m.dependent, m.has_jacobian, [(k,(p.value,p.lower_bound,p.upper_bound,p.fixed,p.shared) if p else None) for k,p in m._params.items()])
