import sys, os, json
sys.path.insert(0, "/tmp/vw/C03/harness")
import common
sys.path.insert(0, common.REPO)
import c03
case = json.loads(sys.argv[1])
res,_,_ = common.evaluate(c03, [case])
r=res[0]
print(c03.wave_of(case) if case["op"] in ("kymo","scan") else "")
for o,i,m in zip(r["ops"], r["impl"], r["model"]): print(o[:200]); print("  impl ", i[:300]); print("  model", m[:300])
print(r["disagree"], r["clause"])
