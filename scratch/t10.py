import sys, os, traceback
sys.path.insert(0,'/tmp/vw/C14/harness'); sys.path.insert(0,'/repo')
os.environ.setdefault("MPLBACKEND","Agg")
import warnings; warnings.filterwarnings("ignore")
import common, c14
rng = common.Rng(0).fork("c14-recover")
cs=[c14.recover_case(rng.fork(i), slow_ok=(i%10==0)) for i in range(150)]
orig = c14.errname
def en(e):
    if isinstance(e, TypeError): traceback.print_exception(e)
    return orig(e)
c14.errname = en
for c in cs:
    if any(m["ctor"]=="efjc_force" for m in c["models"]):
        ia = c14.impl(c)
        if "TypeError" in ia[0]: break
