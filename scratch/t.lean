import Verif.Lemmas.C10
namespace Verif.C10
/-! ## `identify_peaks` -/

theorem getD_map_true {β} (q : β → Bool) (l : List β) (j : Nat) :
    (l.map q).getD j false = true ↔ ∃ h : j < l.length, q l[j] = true := by
  rw [List.getD_eq_getElem?_getD]
  by_cases h : j < l.length
  · simp [h]
  · simp [h]

theorem pyIndex_natCast {β} (l : List β) (k : Nat) : Py.pyIndex l (k : Int) = l[k]? := by
  unfold Py.pyIndex
  have : ¬ ((k : Int) < 0) := by omega
  simp [this]

theorem pyIndex_of_nonneg {β} (l : List β) (y : Int) (h : 0 ≤ y) : Py.pyIndex l y = l[y.toNat]? := by
  obtain ⟨k, rfl⟩ := Int.eq_ofNat_of_zero_le h
  rw [pyIndex_natCast]; simp

/-- the runs of a mask derived from a list, described by `getD` -/
theorem runs_of_map_ok {β} (q : β → Bool) (l : List β) :
    ∀ r ∈ runsFrom 0 0 (l.map q), RunOK (fun j => (l.map q).getD j false) l.length r := by
  intro r hr
  have := runs_ok (fun j => (l.map q).getD j false) (l.map q) 0 0 (agrees_getD _)
    ⟨Nat.le_refl _, by intro j _ h; omega, Or.inl rfl⟩ r hr
  simpa using this

section peaks
variable {α : Type} [LinearOrder α]

/-- Characterisation of the index ranges computed by `identify_peaks`: the look-ups never fail, and the
    result consists of the baseline runs (at strictly increasing positions `ys` of the list of all
    baseline runs) that contain the first bin of some peak run. -/
theorem identifyPeaks_char (flat : List α) (baseline cutoff : α) (hbc : baseline < cutoff) :
    ∃ ys : List Int, ys.Pairwise (· < ·) ∧
      (∀ y ∈ ys, 0 ≤ y ∧ ∃ b, (runsFrom 0 0 (flat.map fun x => decide (baseline ≤ x)))[y.toNat]? = some b ∧
        ∃ p ∈ runsFrom 0 0 (flat.map fun x => decide (cutoff < x)), b.1 ≤ p.1 ∧ p.1 ≤ b.2) ∧
      (∀ p ∈ runsFrom 0 0 (flat.map fun x => decide (cutoff < x)), ∃ y ∈ ys, 0 ≤ y ∧
        ∃ b, (runsFrom 0 0 (flat.map fun x => decide (baseline ≤ x)))[y.toNat]? = some b ∧
          b.1 ≤ p.1 ∧ p.1 ≤ b.2) ∧
      identifyPeaksIdx flat baseline cutoff =
        some (ys.map fun y => ((runsFrom 0 0 (flat.map fun x => decide (baseline ≤ x)))[y.toNat]?).getD (0, 0)) := by
  generalize hbm : (flat.map fun x => decide (baseline ≤ x)) = bm
  generalize hpm : (flat.map fun x => decide (cutoff < x)) = pm
  have hbl : bm.length = flat.length := by rw [← hbm]; simp
  -- every peak run starts in a bin that is above the baseline, so the look-up succeeds
  have hlook : ∀ p ∈ runsFrom 0 0 pm, ∃ k : Nat,
      (idxAux 0 false bm)[p.1]? = some (k : Int) ∧
        ∃ b, (runsFrom 0 0 bm)[k]? = some b ∧ b.1 ≤ p.1 ∧ p.1 ≤ b.2 := by
    intro p hp
    rw [← hpm] at hp
    obtain ⟨h1, _, h3, _, _⟩ := runs_of_map_ok (fun x => decide (cutoff < x)) flat p hp
    have hp1 := h3 p.1 (Nat.le_refl _) h1
    obtain ⟨hlt, hq⟩ := (getD_map_true _ flat p.1).mp hp1
    have hcut : cutoff < flat[p.1] := by simpa using hq
    have hb : bm[p.1]'(by omega) = true := by
      subst hbm
      simp only [List.getElem_map, decide_eq_true_eq]
      exact le_of_lt (lt_trans hbc hcut)
    obtain ⟨k, hk, b, hb1, hb2, hb3⟩ := lookup_run bm 0 0 (Nat.le_refl _) p.1 (by omega) hb
    simp only [Nat.lt_irrefl, ↓reduceIte, decide_false, Nat.zero_add] at hk hb2 hb3
    refine ⟨k, ?_, b, hb1, hb2, hb3⟩
    rw [List.getElem?_eq_getElem (by rw [idxAux_length]; omega), hk]
  let g1 : Nat × Nat → Int := fun p => ((idxAux 0 false bm)[p.1]?).getD 0
  let g2 : Int → Nat × Nat := fun y => ((runsFrom 0 0 bm)[y.toNat]?).getD (0, 0)
  have hg1 : ∀ p ∈ runsFrom 0 0 pm, Py.pyIndex (baselineIndices bm) p.1 = some (g1 p) := by
    intro p hp
    obtain ⟨k, hk, _⟩ := hlook p hp
    rw [baselineIndices_eq, pyIndex_natCast]
    simp [g1, hk]
  have hex : ∀ y ∈ unique ((runsFrom 0 0 pm).map g1), 0 ≤ y ∧
      ∃ b, (runsFrom 0 0 bm)[y.toNat]? = some b ∧ ∃ p ∈ runsFrom 0 0 pm, b.1 ≤ p.1 ∧ p.1 ≤ b.2 := by
    intro y hy
    rw [mem_unique] at hy
    obtain ⟨p, hp, rfl⟩ := List.mem_map.mp hy
    obtain ⟨k, hk, b, hb1, hb2, hb3⟩ := hlook p hp
    have : g1 p = (k : Int) := by simp [g1, hk]
    rw [this]
    exact ⟨by omega, b, by simpa using hb1, p, hp, hb2, hb3⟩
  have hg2 : ∀ y ∈ unique ((runsFrom 0 0 pm).map g1),
      Py.pyIndex (runsFrom 0 0 bm) y = some (g2 y) := by
    intro y hy
    obtain ⟨h0, b, hb, _⟩ := hex y hy
    rw [pyIndex_of_nonneg _ _ h0]
    simp [g2, hb]
  refine ⟨unique ((runsFrom 0 0 pm).map g1), unique_sorted _, hex, ?_, ?_⟩
  · intro p hp
    obtain ⟨k, hk, b, hb1, hb2, hb3⟩ := hlook p hp
    have hg : g1 p = (k : Int) := by simp [g1, hk]
    refine ⟨g1 p, (mem_unique _ _).mpr (List.mem_map.mpr ⟨p, hp, rfl⟩), by omega, b, ?_, hb2, hb3⟩
    rw [hg]; simpa using hb1
  · unfold identifyPeaksIdx
    simp only [hbm, hpm, grab_eq_runs]
    rw [mapM_option_of_forall _ g1 _ hg1]
    simp only [Option.bind_some]
    rw [mapM_option_of_forall _ g2 _ hg2]
    split
    · rename_i hemp
      simp only [List.isEmpty_iff] at hemp
      simp [hemp, unique]
    · rfl

end peaks
end Verif.C10
