import sys, os, time, collections, math
sys.path.insert(0,'/tmp/vw/C14/harness'); sys.path.insert(0,'/repo')
os.environ.setdefault("MPLBACKEND","Agg")
import warnings; warnings.filterwarnings("ignore")
import numpy as np
import lumicks.pylake as lk
import common
rng = common.Rng(int(sys.argv[1]) if len(sys.argv)>1 else 0)
DIST = ["ewlc_odijk_distance","ewlc_marko_siggia_distance","wlc_marko_siggia_distance","efjc_distance","twlc_distance"]
FORCE = ["ewlc_marko_siggia_force","wlc_marko_siggia_force","ewlc_odijk_force","twlc_force","efjc_force"]
stats = collections.defaultdict(lambda: [0,0.0,0.0,0])
for ctor in DIST+FORCE:
    for rep in range(12):
        sub = rng.fork(ctor+str(rep))
        m = getattr(lk, ctor)("M")
        names = m.parameter_names
        truth = {}
        for n,p in m._params.items():
            truth[n] = p.value
        truth["M/Lp"] = sub.uniform(30, 60); truth["M/Lc"] = sub.uniform(2, 20)
        if "M/St" in truth: truth["M/St"] = sub.uniform(800, 2000)
        f = np.linspace(sub.uniform(0.1,0.5), sub.uniform(20, 40), sub.randint(20,40))
        if m.independent == "f":
            x = f
        else:
            dm = getattr(lk, ctor.replace("_force","_distance"))("M")
            x = dm(f, truth)
        y = m(x, truth)
        fit = lk.FdFit(m)
        fit._add_data("d", x, y)
        free = [n for n in names if n in ("M/Lp","M/Lc","M/St")]
        for n in names:
            if n not in free: fit[n].fixed = True
        for n in free:
            pert = sub.uniform(-0.15, 0.15)
            if n == "M/Lc" and m.independent != "f":
                pert = abs(pert)
            fit[n].value = truth[n]*(1+pert)
        t=time.time()
        try:
            fit.fit()
            err = max(abs(fit[n].value-truth[n])/abs(truth[n]) for n in free)
            worst = max(free, key=lambda n: abs(fit[n].value-truth[n])/abs(truth[n]))
        except Exception as e:
            err = float("inf"); worst=repr(e)[:80]
        dt=time.time()-t
        s=stats[ctor]; s[0]+=1; s[1]=max(s[1],err); s[2]+=dt
        if err>1e-5: print(ctor, rep, err, worst)
for k,v in stats.items(): print(k, v[0], "maxrel %.2e"%v[1], "avg time %.3f"%(v[2]/v[0]))
