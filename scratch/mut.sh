#!/bin/bash
# usage: mut.sh <name> <file> <python-expr-old> <new>   (applies a textual mutant in /tmp/wt_C14, runs quick check, reverts)
set -u
name="$1"; file="$2"
cd /tmp/wt_C14 && git checkout -q -- . 
python3 - "$file" <<PY
import sys
p=sys.argv[1]
s=open(p).read()
old=open('/tmp/vw/C14/scratch/old.txt').read()
new=open('/tmp/vw/C14/scratch/new.txt').read()
assert s.count(old)==1, s.count(old)
open(p,'w').write(s.replace(old,new))
PY
cd /tmp/vw/C14 && VERIF_REPO=/tmp/wt_C14 ./check C14 --tier quick 2>&1 | grep -v "conda\|condarc\|^  path\|^  reason\|^$\|KNOWN-FINDING" | tail -4
echo "exit=${PIPESTATUS[0]} mutant=$name"
cd /tmp/wt_C14 && git checkout -q -- .
