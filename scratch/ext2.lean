import Verif.Props.C14
import Verif.Lemmas.C14
namespace Verif.C14

/-! ### Jacobian scatter -/

theorem scatter_fold_eq (idx : List Nat) (s row0 r : List Rat) (hnd : idx.Nodup)
    (h : ∀ i ∈ idx, r.getD i 0 = row0.getD i 0) :
    (List.zipWith (fun i sj => (i, row0.getD i 0 - sj)) idx s).foldl (fun r (iv : Nat × Rat) => r.set iv.1 iv.2) r =
    (List.zipWith (fun i sj => (i, sj)) idx s).foldl
      (fun r (iv : Nat × Rat) => r.set iv.1 (r.getD iv.1 0 - iv.2)) r := by
  induction idx generalizing s r with
  | nil => simp
  | cons i is ih =>
    cases s with
    | nil => simp
    | cons sj ss =>
      simp only [List.zipWith_cons_cons, List.foldl_cons]
      rw [h i (List.mem_cons_self)]
      apply ih ss _ (List.nodup_cons.mp hnd).2
      intro i' hi'
      have hne : i ≠ i' := by
        intro e; subst e; exact (List.nodup_cons.mp hnd).1 hi'
      rw [getD_set_ne _ _ _ _ hne]
      exact h i' (List.mem_cons_of_mem _ hi')

theorem scatterRow_eq_sum (c : Condition) (row sens : List Rat) (hnd : c.pIndices.Nodup) :
    scatterRow c row sens = scatterRowSum c row sens := by
  unfold scatterRow scatterRowSum
  exact scatter_fold_eq _ _ row row hnd (fun _ _ => rfl)

theorem pIndices_eq (tr : List (String × Target)) (uniq : List String) (h : NamesIn tr uniq) :
    (mkCondition tr uniq).pIndices = (tr.filterMap (·.2.name?)).map uniq.idxOf := by
  unfold mkCondition
  simp only [List.map_map]
  induction tr with
  | nil => rfl
  | cons e es ih =>
    have h' : NamesIn es uniq := fun e' he' => h e' (List.mem_cons_of_mem _ he')
    cases ht : e.2 with
    | name s =>
      have hs : s ∈ uniq := h e (List.mem_cons_self) s ht
      simp [Function.comp, ht, Target.name?, lookupIdx_of_mem uniq s hs] at ih ⊢
      exact ih h'
    | const v r =>
      simp [Function.comp, ht, Target.name?] at ih ⊢
      exact ih h'

theorem nodup_map_idxOf (uniq ns : List String) (hin : ∀ n ∈ ns, n ∈ uniq) (hnd : ns.Nodup) :
    (ns.map uniq.idxOf).Nodup := by
  induction ns with
  | nil => simp
  | cons a as ih =>
    rw [List.map_cons, List.nodup_cons]
    refine ⟨?_, ih (fun n hn => hin n (List.mem_cons_of_mem _ hn)) (List.nodup_cons.mp hnd).2⟩
    intro hmem
    obtain ⟨b, hb, e⟩ := List.mem_map.mp hmem
    have : a = b := idxOf_inj_of_mem uniq a b (hin a (List.mem_cons_self)) e.symm
    subst this
    exact (List.nodup_cons.mp hnd).1 hb

/-! ### defaults -/

def namedPairs (m : ModelData) : List (String × Option Param) :=
  m.data.flatMap fun d => d.trans.filterMap fun e => match e.2 with
    | .name s => some (s, m.default e.1)
    | .const _ _ => none

def allPairs (ms : List ModelData) : List (String × Option Param) := ms.flatMap namedPairs

theorem namedPairs_fst (m : ModelData) : (namedPairs m).map (·.1) = m.transformedParams := by
  unfold namedPairs ModelData.transformedParams parameterNames
  rw [List.map_flatMap]
  congr 1; funext d
  rw [List.map_filterMap]
  congr 1; funext e
  cases e.2 <;> rfl

theorem namedPairs_snd (m : ModelData) : (namedPairs m).map (·.2) = m.dataDefaults := by
  unfold namedPairs ModelData.dataDefaults sourceNames
  rw [List.map_flatMap]
  congr 1; funext d
  rw [List.map_filterMap, List.map_filterMap]
  congr 1; funext e
  cases e.2 <;> rfl

theorem allPairs_fst (ms : List ModelData) : (allPairs ms).map (·.1) = allNames ms := by
  unfold allPairs allNames
  rw [List.map_flatMap]
  congr 1; funext m; exact namedPairs_fst m

theorem allPairs_snd (ms : List ModelData) : (allPairs ms).map (·.2) = allDefaults true ms := by
  unfold allPairs allDefaults
  rw [List.map_flatMap]
  congr 1; funext m; simp [namedPairs_snd]

theorem getElem_idxOf_eq_lookup {β} (l : List (String × β)) (n : String) (h : n ∈ l.map (·.1)) :
    (l.map (·.2))[(l.map (·.1)).idxOf n]? = l.lookup n := by
  induction l with
  | nil => cases h
  | cons e es ih =>
    obtain ⟨k, v⟩ := e
    simp only [List.map_cons, List.idxOf_cons, List.lookup_cons]
    by_cases e' : n = k
    · subst e'; simp
    · have h1 : (n == k) = false := by simp [e']
      have h2 : (k == n) = false := by simp [Ne.symm e']
      rw [h1, h2]
      simp only [cond_false, List.getElem?_cons_succ]
      exact ih (by simpa [e'] using h)

theorem buildDefaults_aligned (ms : List ModelData) :
    buildDefaults true ms = (globalNames ms).map fun n => ((allPairs ms).lookup n).join := by
  unfold buildDefaults
  apply List.map_congr_left
  intro n hn
  have hn' : n ∈ (allPairs ms).map (·.1) := by
    rw [allPairs_fst]; exact (mem_unique _ _).mp hn
  rw [← allPairs_fst, ← allPairs_snd, getElem_idxOf_eq_lookup _ n hn']

theorem allDefaults_of_all_data (ms : List ModelData) (h : ∀ m ∈ ms, m.data ≠ []) :
    allDefaults false ms = allDefaults true ms := by
  unfold allDefaults
  induction ms with
  | nil => rfl
  | cons m ms ih =>
    have hm : m.data.isEmpty = false := by
      cases hd : m.data with
      | nil => exact absurd hd (h m (List.mem_cons_self))
      | cons a as => rfl
    simp only [List.flatMap_cons]
    rw [ih (fun m' hm' => h m' (List.mem_cons_of_mem _ hm'))]
    simp [ModelData.defaults, hm]

end Verif.C14
namespace Verif.C14

theorem mem_zip_map_self {α β} (l : List α) (g : α → β) (n : α) (h : n ∈ l) : (n, g n) ∈ l.zip (l.map g) := by
  induction l with
  | nil => cases h
  | cons a as ih =>
    simp only [List.map_cons, List.zip_cons_cons, List.mem_cons, Prod.mk.injEq]
    rcases List.mem_cons.mp h with rfl | h
    · exact .inl ⟨rfl, rfl⟩
    · exact .inr (ih h)

/-- **jacobian_scatter_correct (ext).** -/
theorem jacobian_scatter_correct (ms : List ModelData) (m : ModelData) (hm : m ∈ ms) (d : Data) (hd : d ∈ m.data)
    (hnd : (parameterNames d).Nodup) (row sens : List Rat) :
    scatterRow (mkCondition d.trans (globalNames ms)) row sens =
      scatterRowSum (mkCondition d.trans (globalNames ms)) row sens := by
  apply scatterRow_eq_sum
  rw [pIndices_eq _ _ (namesIn_globalNames ms m hm d hd)]
  apply nodup_map_idxOf _ _ _ hnd
  intro n hn
  obtain ⟨e, he, h⟩ := (mem_parameterNames d n).mp hn
  exact namesIn_globalNames ms m hm d hd e he n h

theorem defaults_first_occurrence (ms : List ModelData) (h : ∀ m ∈ ms, m.data ≠ []) :
    buildDefaults false ms = (globalNames ms).map fun n => ((allPairs ms).lookup n).join := by
  rw [← buildDefaults_aligned]
  unfold buildDefaults
  rw [allDefaults_of_all_data ms h]

theorem build_table_entry (F : Fit) (h : ∀ m ∈ F.models, m.data ≠ []) (n : String)
    (hn : n ∈ globalNames F.models) :
    (F.build false).table.lookup n =
      some ((F.table.lookup n).getD ((((allPairs F.models).lookup n).join).getD Param.dflt)) := by
  show (setParams F.table (globalNames F.models) (buildDefaults false F.models)).lookup n = _
  rw [defaults_first_occurrence F.models h]
  exact lookup_setParams_zip _ _ _ (unique_nodup _) n _ (mem_zip_map_self _ _ n hn)

end Verif.C14
