import Verif.Lemmas.C18
open Verif.C18
#print Rat.floor
#check @Rat.floor_def
#check @Rat.floor_le
#check @Rat.lt_floor_add_one
#check @Int.floor_le
#check @Rat.le_floor
#check @Rat.floor_intCast
#check @Rat.num_div_den
#check @Rat.num_nonneg
#check @Int.tdiv_eq_ediv_of_nonneg
#check @Int.tdiv_eq_ediv
#check @Rat.floor_cast
#check @Rat.intCast_div_eq_divInt
example (x : ℚ) : ⌊x⌋ = x.floor := by exact?
