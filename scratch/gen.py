

# ------------------------------------------------------------------ generators

XS = [0.0, 1.0, 2.0, 3.0, -1.0, 0.5, 4.0, -2.0, 1.5, 2.5, 5.0, -0.5]


def poly_y(coef, x):
    return [float(sum(c * xv**k for k, c in enumerate(coef))) for xv in x]


def poly_spec(name, args, defaults=None, shared=(), jac=True):
    return {"kind": "poly", "name": name, "args": list(args), "defaults": defaults or {}, "shared": list(shared), "jac": jac}


def add_action(mi, name, x, coef, ov=None, y=None):
    a = {"a": "add", "mi": mi, "name": name, "x": list(x), "y": poly_y(coef, x) if y is None else list(y)}
    if ov:
        a["ov"] = ov
    return a


def sens_for(act, nargs):
    """local sensitivities of a polynomial model at the first valid data point"""
    for xv, yv in zip(act["x"], act["y"]):
        if not (math.isnan(xv) or math.isnan(yv)):
            return [float(xv**k) for k in range(nargs)]
    return None


Q = {"a": "query"}
F = {"a": "fit"}


def S(name, f, v):
    return {"a": "set", "name": name, "f": f, "v": v}


def script(stream, models, actions, **kw):
    c = {"stream": stream, "op": "script", "models": models, "actions": actions}
    c.update(kw)
    return c


def corpus_cases():
    x = XS[:4]
    M = poly_spec("M", ["a", "b"], {"a": [1.0, None, None, False], "b": [2.0, -5.0, 5.0, False]})
    # the worked example: sharing, renaming, a constant, a fit, a Jacobian probe
    a1 = add_action(0, "d1", x, [1, 3])
    a2 = add_action(0, "d2", x, [2, 3], {"M/a": {"n": "M/a2"}})
    a3 = add_action(0, "d3", x, [5, 3], {"M/a": {"c": 5}})
    yield script("corpus", [M], [Q, a1, Q, a2, a3, Q, F, Q, {"a": "jac", "mi": 0, "name": "d2", "sens": sens_for(a2, 2)}, F, Q])
    # O-C14-A: a parameter NAMED like a constant prints the same condition string
    yield script("corpus", [M], [add_action(0, "d1", x, [5, 3], {"M/a": {"c": 5}}), add_action(0, "d2", x, [1, 3], {"M/a": {"n": "5"}}), Q])
    yield script("corpus", [M], [add_action(0, "d1", x, [1, 3], {"M/a": {"n": "x|y"}, "M/b": {"n": "z"}}), add_action(0, "d2", x, [1, 3], {"M/a": {"n": "x"}, "M/b": {"n": "y|z"}}), S("x|y", "value", 10.0), S("x", "value", 20.0), Q])
    # O-C14-B: a model without data in front of one with data (defaults by position)
    A = poly_spec("A", ["off"], {"off": [0.01, -0.1, 0.1, False]})
    B = poly_spec("B", ["Lp", "Lc", "kT"], {"Lp": [40.0, 0.001, 100.0, False], "Lc": [16.0, 0.00034, None, False], "kT": [4.11, 3.77, 8.0, True]}, shared=["kT"])
    bx = add_action(1, "d", XS[:6], [1, 2, 3])
    yield script("corpus", [A, B], [bx, Q])
    yield script("corpus", [A, B], [bx, Q, add_action(0, "e", x, [0.5]), Q, F, Q])
    yield script("corpus", [B, A], [add_action(0, "d", XS[:6], [1, 2, 3]), Q])
    # O-C14-C: two parameters of one dataset mapped to one name: the Jacobian scatter keeps one contribution
    ad1 = add_action(0, "d1", [1.0, 2.0, 3.0, 4.0, 5.0], [3, 3], {"M/b": {"n": "M/a"}})
    yield script("corpus", [M], [ad1, Q, {"a": "jac", "mi": 0, "name": "d1", "sens": [1.0, 1.0]}])
    yield script("corpus", [M], [ad1, Q, {"a": "jac", "mi": 0, "name": "d1", "sens": [1.0, 1.0]}, F, Q])
    # adding to an earlier model can reorder names of a later model (entries are kept by name)
    P1 = poly_spec("P", ["p", "q"], {"p": [1.0, None, None, False], "q": [2.0, None, None, False]})
    P2 = poly_spec("R", ["r", "q"], {"r": [3.0, None, None, False], "q": [4.0, 0.0, 9.0, True]})
    yield script("corpus", [P1, P2], [
        add_action(0, "a", x, [1, 1], {"P/q": {"n": "P/p"}}), add_action(1, "c", x, [1, 1]), Q, S("R/r", "value", 7.5), S("R/q", "ub", 8.0), Q,
        add_action(0, "b", x, [1, 1], {"P/p": {"n": "R/q"}, "P/q": {"n": "R/r"}}), Q])
    # errors
    yield script("corpus", [M], [F, Q, a1, a1, add_action(0, "e", x, [1, 1], {"M/c": {"n": "z"}}), add_action(0, "f", x, [1, 1], y=[1.0]), S("nope", "value", 1.0), Q,
                                 S("M/a", "fixed", True), S("M/b", "fixed", True), Q, F, Q, S("M/b", "fixed", False), S("M/b", "value", 6.0), Q, F, Q,
                                 S("M/b", "value", 5.0), S("M/b", "lb", 5.0), Q, F, Q])
    # only NaN data: no residuals
    yield script("corpus", [M], [add_action(0, "d1", x, [1, 1], y=[float("nan")] * 4), Q, F, Q])
    yield {"stream": "corpus", "op": "unique", "names": ["a", "b", "a", "c", "b"]}
    yield {"stream": "corpus", "op": "unique", "names": []}


TARGET_KINDS = ["own", "ren", "shared", "const", "other"]


def small_scope(tier):
    """one model y = a + b x, up to 2 (quick) / 3 (thorough) datasets, every combination of target kinds per parameter
    and dataset, fixing / bounding patterns; adds, query, Jacobian probe, fit, query, refit, query"""
    quick = tier == "quick"
    import itertools

    M = poly_spec("M", ["a", "b"], {"a": [1.0, None, None, False], "b": [2.0, -50.0, 50.0, False]})
    names = ["M/a", "M/b"]
    nds_list = [1, 2] if quick else [1, 2, 3]
    kinds = ["own", "ren", "const", "other"] if quick else TARGET_KINDS
    for nds in nds_list:
        for combo in itertools.product(itertools.product(kinds, repeat=2), repeat=nds):
            if nds == 3 and sum(k == "own" for c in combo for k in c) > 3:
                continue
            acts = []
            tnames = []
            for di, kk in enumerate(combo):
                ov = {}
                for pi, kd in enumerate(kk):
                    pn = names[pi]
                    if kd == "ren":
                        ov[pn] = {"n": f"{pn}_{di}"}
                    elif kd == "shared":
                        ov[pn] = {"n": "S"}
                    elif kd == "const":
                        ov[pn] = {"c": [1.0, 3][pi] + di}
                    elif kd == "other":
                        ov[pn] = {"n": names[1 - pi]}
                for pn in names:
                    t = ov.get(pn, {"n": pn})
                    if "n" in t and t["n"] not in tnames:
                        tnames.append(t["n"])
                coef = [1.0 + di, 3.0]
                acts.append(add_action(0, f"d{di}", XS[1 : 6 + di], coef, ov))
            for fixpat in range(3 if not quick else 2):
                post = [Q]
                if fixpat == 1 and tnames:
                    post = [S(tnames[0], "fixed", True), S(tnames[0], "value", 1.5), Q]
                elif fixpat == 2 and tnames:
                    post = [S(tnames[-1], "lb", 0.0), S(tnames[-1], "ub", 2.5), S(tnames[-1], "value", 2.0), Q]
                probe = [{"a": "jac", "mi": 0, "name": "d0", "sens": sens_for(acts[0], 2)}]
                yield script("small-scope", [M], acts + post + probe + [F, Q, F, Q])


NAME_POOL = ["x", "y", "shared", "M/a_2", "DNA/Lc_RecA", "λ/Lc", "k T", "", "a.b", "P/c0"]
CONSTS = [5, 5.0, 0, 0.0, -1.5, 2, 1e-3, 1e6, 0.1, 3.25]


def random_script(rng, stream="random"):
    nm = rng.choice([1, 1, 1, 2, 2, 3])
    models = []
    argpool = ["a", "b", "c", "d"]
    for mi in range(nm):
        na = rng.randint(1, 4)
        args = argpool[:na]
        shared = []
        dfl = {}
        if rng.chance(0.4):
            args = args + ["kT"]
            shared = ["kT"]
            dfl["kT"] = [4.11, 3.77, 8.0, rng.chance(0.7)]
        for a in args:
            if a != "kT" and rng.chance(0.7):
                v = rng.choice([0.0, 1.0, 2.0, -3.0, 0.5])
                lo = None if rng.chance(0.5) else v - rng.choice([0.0, 1.0, 10.0])
                hi = None if rng.chance(0.5) else v + rng.choice([0.0, 1.0, 10.0])
                dfl[a] = [v, lo, hi, rng.chance(0.15)]
        models.append(poly_spec(["M", "N", "DNA"][mi], args, dfl, shared, jac=rng.chance(0.8)))
    pn = [model_param_names(m) for m in models]
    acts = []
    names_now = []
    ds_names = [[] for _ in models]
    nadds = rng.randint(1, 4)
    pending = []
    for k in range(nadds):
        mi = rng.randint(0, nm - 1)
        names = pn[mi]
        ov = {}
        for p in names:
            c = rng.randint(0, 9)
            if c <= 3:
                continue
            if c <= 5:
                ov[p] = {"n": f"{p}_{k}"}
            elif c == 6:
                ov[p] = {"n": rng.choice(NAME_POOL)}
            elif c == 7:
                ov[p] = {"c": rng.choice(CONSTS)}
            elif c == 8:
                ov[p] = {"n": rng.choice(names)}
            else:
                other = pn[rng.randint(0, nm - 1)]
                ov[p] = {"n": rng.choice(other)}
        npts = rng.randint(len(names) + 2, len(names) + 7)
        x = [rng.choice(XS) + rng.choice([0.0, 0.25, 10.0]) for _ in range(npts)]
        coef = [rng.choice([0.0, 1.0, -2.0, 0.5, 3.0]) for _ in names]
        y = poly_y(coef, x)
        if rng.chance(0.15):
            j = rng.randint(0, npts - 1)
            if rng.chance(0.5):
                x[j] = float("nan")
            else:
                y[j] = float("nan")
        dsn = f"d{k}" if not rng.chance(0.05) or not ds_names[mi] else rng.choice(ds_names[mi])
        a = {"a": "add", "mi": mi, "name": dsn, "x": x, "y": y}
        if ov:
            a["ov"] = ov
        if rng.chance(0.03):
            a["ov"] = dict(ov, **{"nope/" + names[0]: {"n": "z"}})
        if rng.chance(0.03):
            a["y"] = y[:-1]
        pending.append((a, len(names), models[mi]["jac"]))
    # interleave
    for k, (a, nargs, hasjac) in enumerate(pending):
        acts.append(a)
        ok = a["name"] not in ds_names[a["mi"]] and len(a["x"]) == len(a["y"]) and all(key in pn[a["mi"]] for key in a.get("ov", {}))
        if ok:
            ds_names[a["mi"]].append(a["name"])
            for p in pn[a["mi"]]:
                t = a.get("ov", {}).get(p, {"n": p})
                if "n" in t and t["n"] not in names_now:
                    names_now.append(t["n"])
        if rng.chance(0.5):
            acts.append(Q)
        nset = rng.choice([0, 0, 1, 2, 3])
        for _ in range(nset):
            if not names_now or rng.chance(0.04):
                acts.append(S("unknown" + str(rng.randint(0, 9)), "value", 1.0))
                continue
            n = rng.choice(names_now)
            c = rng.randint(0, 9)
            if c <= 2:
                acts.append(S(n, "value", rng.choice([0.0, 1.0, -1.0, 2.5, 100.0, 0.3, 7.0])))
            elif c <= 4:
                acts.append(S(n, "fixed", rng.chance(0.6)))
            elif c <= 6:
                acts.append(S(n, "lb", rng.choice([None, -10.0, 0.0, 1.0, 2.5, -1e6])))
            elif c <= 8:
                acts.append(S(n, "ub", rng.choice([None, 10.0, 0.0, 1.0, 2.5, 1e6])))
            else:
                v = rng.choice([0.0, 1.0, 2.5])
                acts += [S(n, "lb", v - rng.choice([0.0, 0.0, 1.0])), S(n, "ub", v + rng.choice([0.0, 1.0])), S(n, "value", v)]
        if k == len(pending) - 1 or rng.chance(0.35):
            pre = rng.chance(0.85)
            if pre:
                acts.append(Q)
            if ok and hasjac and pre and rng.chance(0.5):
                s = sens_for(a, nargs)
                if s is not None:
                    acts.append({"a": "jac", "mi": a["mi"], "name": a["name"], "sens": s})
            acts.append(F)
            if rng.chance(0.9):
                acts.append(Q)
            if rng.chance(0.3):
                acts += [F, Q]
    return script(stream, models, acts)


def random_builtin(rng):
    """bookkeeping only (no fit) on the library's own models: prefixed names, the shared kT, composite models"""
    ctors = ["ewlc_odijk_distance", "efjc_distance", "wlc_marko_siggia_distance", "twlc_distance", "distance_offset", "ewlc_marko_siggia_distance"]
    nm = rng.choice([1, 2])
    models = []
    for mi in range(nm):
        spec = {"kind": "builtin", "ctor": rng.choice(ctors), "name": ["DNA", "prot"][mi]}
        if rng.chance(0.3):
            spec["plus"] = [{"ctor": rng.choice(ctors), "name": "seg" + str(mi)}]
        if rng.chance(0.2):
            spec["offset"] = True
        models.append(spec)
    acts = []
    for k in range(rng.randint(1, 3)):
        mi = rng.randint(0, nm - 1)
        base = models[mi]["name"]
        ov = {}
        for arg in ["Lp", "Lc", "St"]:
            if rng.chance(0.3):
                ov[f"{base}/{arg}"] = {"n": f"{base}/{arg}_{k}"} if rng.chance(0.7) else {"c": rng.choice([40.0, 16, 1500.0])}
        if rng.chance(0.15):
            ov["kT"] = {"n": "kT_" + str(k)}
        x = [0.5 + j for j in range(6)]
        a = {"a": "add", "mi": mi, "name": f"d{k}", "x": x, "y": [1.0 + 0.1 * j for j in range(6)]}
        if ov:
            a["ov"] = ov
        acts.append(a)
        if rng.chance(0.6):
            acts.append(Q)
    acts.append(Q)
    return script("random-builtin", models, acts)


def cases(tier, rng):
    quick = tier == "quick"
    yield from corpus_cases()
    yield from small_scope(tier)
    r = rng.fork("c14-random")
    for i in range(900 if quick else 12000):
        c = random_script(r.fork(i))
        c["subseed"] = i
        yield c
    r = rng.fork("c14-builtin")
    for i in range(60 if quick else 600):
        c = random_builtin(r.fork(i))
        c["subseed"] = i
        yield c
    r = rng.fork("c14-unique")
    for i in range(100 if quick else 2000):
        sub = r.fork(i)
        pool = ["a", "b", "c", "a|b", "", "kT", "M/a"]
        yield {"stream": "random", "op": "unique", "names": [sub.choice(pool) for _ in range(sub.randint(0, 9))], "subseed": i}
