import sys; sys.path.insert(0,'/repo')
import numpy as np
import lumicks.pylake as lk
# composite: two WLC segments in series, distance as function of force
m = lk.ewlc_odijk_distance("DNA") + lk.ewlc_odijk_distance("prot")
print(m.parameter_names)
f = np.linspace(0.5, 30, 60)
true = {"DNA/Lp": 50.0, "DNA/Lc": 2.7, "DNA/St": 1500.0, "kT": 4.11, "prot/Lp": 50.0, "prot/Lc": 0.5, "prot/St": 800.0}
d = m(f, true)
for link in [{"prot/Lp": "DNA/Lp"}, {"prot/St": "DNA/St", "prot/Lp":"DNA/Lp"}]:
    fit = lk.FdFit(m)
    tr = dict(true)
    if "prot/St" in link: tr["prot/St"]=1500.0
    d = m(f, tr)
    fit.add_data("d", f, d, params=link)
    fit["DNA/Lp"].value = 42; fit["DNA/Lc"].value=2.5; fit["prot/Lc"].value=0.56; fit["DNA/St"].value=1300
    if "prot/St" not in link: fit["prot/St"].value = 900
    try:
        fit.fit()
    except Exception as e:
        print("ERR", e)
    print(fit.params)
    print("jac ok", fit.verify_jacobian(fit.params.values, verbose=False))
