import sys; sys.path.insert(0,"/repo")
import numpy as np
from lumicks.pylake.detail.confocal import timestamp_mean
bad=[dt for dt in range(1,3000) if int(1e9/(1e9/dt))!=dt]
print(len(bad), bad[:30])
print([dt for dt in range(1,3000) if int(1e9/(1e9/dt)) not in (dt,dt-1)])
M=2**63-1
for a in ([1,0,3074457345618258603],[0,M],[M,M],[M-1,M,M-2],[5]):
    arr=np.array(a,dtype=np.int64); print(a, timestamp_mean(arr), sum(a)//len(a))
print(timestamp_mean(np.array([[1,2],[3,5]],dtype=np.int64),axis=1))
print(timestamp_mean(np.array([[1,0,3074457345618258603],[3,5,9]],dtype=np.int64),axis=1))
try: timestamp_mean(np.array([],dtype=np.int64))
except Exception as e: print(type(e))
