import Mathlib.Analysis.SpecialFunctions.Complex.Log
import Mathlib.Algebra.Field.GeomSum
import Mathlib.Tactic.Ring
import Mathlib.Tactic.FieldSimp
import Mathlib.Tactic.Linarith

open Complex in
theorem sum_exp_eq_zero (d N : ℕ) (hd : 0 < d) (hdN : d < N) :
    ∑ i ∈ Finset.range N, Complex.exp (((2 * Real.pi * ((d * i : ℕ) : ℝ) / (N : ℝ) : ℝ) : ℂ) * I) = 0 := by
  have hN : (N : ℂ) ≠ 0 := by
    have : N ≠ 0 := by omega
    exact_mod_cast this
  have hterm : ∀ i : ℕ, Complex.exp (((2 * Real.pi * ((d * i : ℕ) : ℝ) / (N : ℝ) : ℝ) : ℂ) * I)
      = Complex.exp (2 * Real.pi * I * d / N) ^ i := by
    intro i
    rw [← Complex.exp_nat_mul]
    congr 1
    push_cast
    field_simp
  simp only [hterm]
  have hpow : Complex.exp (2 * Real.pi * I * d / N) ^ N = 1 := by
    rw [← Complex.exp_nat_mul]
    have : (N : ℂ) * (2 * Real.pi * I * d / N) = (d : ℂ) * (2 * Real.pi * I) := by field_simp
    rw [this, Complex.exp_nat_mul_two_pi_mul_I]
  have hne : Complex.exp (2 * Real.pi * I * d / N) ≠ 1 := by
    intro h
    obtain ⟨n, hn⟩ := Complex.exp_eq_one_iff.mp h
    have hpi : (2 * Real.pi * I : ℂ) ≠ 0 := by
      simp [Real.pi_ne_zero, Complex.I_ne_zero]
    have h2 : (d : ℂ) = n * N := by
      field_simp at hn
      rw [hn]; ring
    have h3 : (d : ℤ) = n * N := by exact_mod_cast h2
    rcases le_or_gt n 0 with hn0 | hn0
    · have : n * (N : ℤ) ≤ 0 := mul_nonpos_of_nonpos_of_nonneg hn0 (by positivity)
      omega
    · have : (N : ℤ) ≤ n * N := by nlinarith
      omega
  rw [geom_sum_eq hne, hpow]; simp

theorem sum_cos_eq_zero (d N : ℕ) (hd : 0 < d) (hdN : d < N) :
    ∑ i ∈ Finset.range N, Real.cos (2 * Real.pi * ((d * i : ℕ) : ℝ) / (N : ℝ)) = 0 := by
  have := congrArg Complex.re (sum_exp_eq_zero d N hd hdN)
  rw [Complex.re_sum] at this
  simp only [Complex.exp_ofReal_mul_I_re, Complex.zero_re] at this
  exact this

theorem sum_sin_eq_zero (d N : ℕ) (hd : 0 < d) (hdN : d < N) :
    ∑ i ∈ Finset.range N, Real.sin (2 * Real.pi * ((d * i : ℕ) : ℝ) / (N : ℝ)) = 0 := by
  have := congrArg Complex.im (sum_exp_eq_zero d N hd hdN)
  rw [Complex.im_sum] at this
  simp only [Complex.exp_ofReal_mul_I_im, Complex.zero_im] at this
  exact this
