/-- `_frame_timestamps_from_exposure_timestamps`: as many ranges as frames; every frame but the last
    runs from its own start to the next frame's start (so the ranges are contiguous); the last one is as
    long as the distance of the last two starts (or keeps its stop when it is alone). -/
theorem legacy_frame_ranges (ts : List (Int × Int)) (hne : ts ≠ []) :
    ∃ r, legacyRanges ts = some r ∧ r.length = ts.length ∧
      (∀ i, i + 1 < ts.length → r[i]? = (ts[i]?.bind fun a => ts[i + 1]?.map fun b => (a.1, b.1))) ∧
      r[ts.length - 1]? = (ts.getLast?.map fun last =>
        (last.1, match ts[ts.length - 2]? with
          | some prev => if 2 ≤ ts.length then last.1 + (last.1 - prev.1) else last.2
          | none => last.2)) := by
  obtain ⟨last, hlast⟩ : ∃ last, ts.getLast? = some last := by
    cases h : ts.getLast? with
    | none => exact absurd (List.getLast?_eq_none_iff.mp h) hne
    | some l => exact ⟨l, rfl⟩
  have hlen : 0 < ts.length := List.length_pos_iff.mpr hne
  have hbody : ((ts.zip (ts.drop 1)).map fun (x : (Int × Int) × (Int × Int)) => (x.1.1, x.2.1)).length
      = ts.length - 1 := by
    simp only [List.length_map, List.length_zip, List.length_drop]; omega
  unfold legacyRanges
  rw [hlast]
  refine ⟨_, rfl, ?_, ?_, ?_⟩
  · rw [List.length_append, hbody]; simp; omega
  · intro i hi
    have : (ts.zip (ts.drop 1))[i]? = some (ts[i], ts[i + 1]) := by
      rw [List.getElem?_zip_eq_some]
      refine ⟨List.getElem?_eq_getElem _, ?_⟩
      rw [List.getElem?_drop, List.getElem?_eq_getElem (by omega)]
      congr 2; omega
    rw [List.getElem?_append_left (by rw [hbody]; omega), List.getElem?_map, this,
      List.getElem?_eq_getElem (by omega : i < ts.length),
      List.getElem?_eq_getElem (by omega : i + 1 < ts.length)]
    rfl
  · rw [List.getElem?_append_right (Nat.le_of_eq hbody), hbody]
    simp only [Nat.sub_self, List.getElem?_cons_zero, Option.map_some, Option.some.injEq, Prod.mk.injEq,
      true_and]
    by_cases h2 : 2 ≤ ts.length
    · rw [if_pos h2]
      rw [List.getElem?_eq_getElem (by omega : ts.length - 2 < ts.length)]
      simp [h2]
    · rw [if_neg h2]
      have : ts.length - 2 = 0 := by omega
      rw [this]
      cases ts[0]? <;> simp [h2]


