import sys, os
sys.path.insert(0,'/tmp/vw/C14/harness'); sys.path.insert(0,'/repo')
os.environ.setdefault("MPLBACKEND","Agg")
import common, c14
rng = common.Rng(0)
cs = list(c14.cases("quick", rng))
res, ti, tm = common.evaluate(c14, cs)
for r in res:
    print(r["ops"][0][:600]); print("IMPL ", r["impl"][0]); print("MODEL", r["model"][0]); print(r["disagree"])
