import sys, os, time, collections, json
sys.path.insert(0,'/tmp/vw/C14/harness'); sys.path.insert(0,'/repo')
os.environ.setdefault("MPLBACKEND","Agg")
import warnings; warnings.filterwarnings("ignore")
import common, c14
seed=int(sys.argv[1]); n=int(sys.argv[2])
rng = common.Rng(seed).fork("c14-recover")
cs=[c14.recover_case(rng.fork(i), slow_ok=(i%10==0)) for i in range(n)]
for c in cs:
    ia = c14.impl(c)
    cl = c14.oracle(c, ia)
    if cl:
        print("=====", [m["ctor"] for m in c["models"]], cl[:200])
        print("truth", c["truth"])
        for a,o in zip(c["actions"], ia[0].split(";")):
            if a["a"]=="add": print("add", a["mi"], a["name"], a.get("ov"), len(a["x"]), "x range", min(a["x"]), max(a["x"]))
            elif a["a"]=="set": print("set", a["name"], a["f"], a["v"])
            elif a["a"]=="fit":
                parts=o.split(":"); print("fit", parts[1], [float(c14._frac(v)) for v in parts[5][1:-1].split(",")] if len(parts)>5 else "")
            else:
                T,_=c14.parse_query(o); print("Q", a.get("check"), [(r[0], float(r[1]), r[4]) for r in T])
