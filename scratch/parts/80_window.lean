/-! ## windows -/

section real
open RealLike

theorem mem_chunks_length {β} (x : List β) (npw : Nat) (w : List β) (hw : w ∈ chunks x npw) :
    w.length = npw := by
  unfold chunks at hw
  obtain ⟨c, hc, rfl⟩ := List.mem_map.mp hw
  have hc : c < x.length / npw := List.mem_range.mp hc
  have h1 : (c + 1) * npw ≤ x.length / npw * npw := Nat.mul_le_mul_right npw hc
  have h2 : x.length / npw * npw ≤ x.length := Nat.div_mul_le_self _ _
  have h3 : (c + 1) * npw = c * npw + npw := by ring
  simp only [List.length_take, List.length_drop]
  omega

theorem getD_map_range {γ} (f : ℕ → γ) (n k : ℕ) (d : γ) (hk : k < n) :
    ((List.range n).map f).getD k d = f k := by
  simp [List.getD_eq_getElem?_getD, List.getElem?_map, List.getElem?_range hk]

theorem psdPower_def (x : List ℝ) (fs : ℝ) (npw : Nat) :
    psdPower x fs npw =
      (meanRows ((chunks (demean x) npw).map rfftSq) (npw / 2 + 1)).map fun v => scaling fs npw * v := rfl

/-- a list of length `npw > 0` is its own single window -/
theorem chunks_self {β} (w : List β) (npw : Nat) (hn : 0 < npw) (hl : w.length = npw) :
    chunks w npw = [w] := by
  unfold chunks
  rw [hl, Nat.div_self hn]
  simp [← hl]

/-- bin `k` (`1 ≤ k ≤ N/2`) of the un-windowed spectrum of a window `w` of `N` points:
    the window's own mean does not matter -/
theorem psdPower_single (fs : ℝ) (w : List ℝ) (npw k : Nat) (hl : w.length = npw)
    (hk1 : 1 ≤ k) (hk2 : k ≤ npw / 2) :
    (psdPower w fs npw).getD k 0 = scaling fs npw * dftSq w k := by
  have hn : 0 < npw := by omega
  have hkN : k < npw := by omega
  have hdl : (demean w).length = npw := by simp [demean, hl]
  rw [psdPower_def, chunks_self _ npw hn hdl]
  simp only [List.map_cons, List.map_nil, meanRows, List.map_map, List.length_singleton]
  rw [getD_map_range _ _ _ _ (by omega)]
  simp only [Function.comp, rsum, ofNat'_real, zero_lit]
  unfold rfftSq
  rw [hdl, getD_map_range _ _ _ _ (by omega)]
  unfold demean
  rw [dftSq_sub_const _ _ _ (by omega) (by omega)]
  simp

end real

section real
open RealLike

theorem dftImFrom_zero (N : Nat) (l : List ℝ) : ∀ n, dftImFrom 0 N n l = 0 := by
  induction l with
  | nil => intro n; simp [dftImFrom, zero_lit]
  | cons v vs ih =>
    intro n
    simp only [dftImFrom, ih, angle_real]
    show v * Real.sin _ + 0 = 0
    simp

theorem dftReFrom_zero (N : Nat) (l : List ℝ) : ∀ n, dftReFrom 0 N n l = rsum l := by
  induction l with
  | nil => intro n; simp [dftReFrom, rsum]
  | cons v vs ih =>
    intro n
    simp only [dftReFrom, ih, angle_real, rsum]
    show v * Real.cos _ + _ = _
    simp

theorem rsum_demean (x : List ℝ) : rsum (demean x) = 0 := by
  unfold demean mean
  cases x with
  | nil => simp [rsum, zero_lit]
  | cons v vs =>
    have hne : (((v :: vs).length : ℕ) : ℝ) ≠ 0 := by simp; positivity
    have h : ∀ (m : ℝ) (l : List ℝ), rsum (l.map fun w => w - m) = rsum l - l.length * m := by
      intro m l
      induction l with
      | nil => simp [rsum, zero_lit]
      | cons a as ih => simp only [List.map_cons, rsum, ih, List.length_cons]; push_cast; ring
    rw [h, ofNat'_real]
    field_simp
    ring

/-- the zero-frequency bin of a de-meaned signal is empty -/
theorem dftSq_demean_zero (x : List ℝ) : dftSq (demean x) 0 = 0 := by
  unfold dftSq
  rw [dftReFrom_zero, dftImFrom_zero, rsum_demean]
  simp [RealLike.sq]

end real
