/-! ## roots of unity: the DFT of a constant vanishes off the zero-frequency bin -/

open Complex in
theorem sum_exp_eq_zero (d N : ℕ) (hd : 0 < d) (hdN : d < N) :
    ∑ i ∈ Finset.range N, Complex.exp (((2 * Real.pi * ((d * i : ℕ) : ℝ) / (N : ℝ) : ℝ) : ℂ) * I) = 0 := by
  have hN : (N : ℂ) ≠ 0 := by
    have : N ≠ 0 := by omega
    exact_mod_cast this
  have hterm : ∀ i : ℕ, Complex.exp (((2 * Real.pi * ((d * i : ℕ) : ℝ) / (N : ℝ) : ℝ) : ℂ) * I)
      = Complex.exp (2 * Real.pi * I * d / N) ^ i := by
    intro i
    rw [← Complex.exp_nat_mul]
    congr 1
    push_cast
    field_simp
  simp only [hterm]
  have hpow : Complex.exp (2 * Real.pi * I * d / N) ^ N = 1 := by
    rw [← Complex.exp_nat_mul]
    have : (N : ℂ) * (2 * Real.pi * I * d / N) = (d : ℂ) * (2 * Real.pi * I) := by field_simp
    rw [this, Complex.exp_nat_mul_two_pi_mul_I]
  have hne : Complex.exp (2 * Real.pi * I * d / N) ≠ 1 := by
    intro h
    obtain ⟨n, hn⟩ := Complex.exp_eq_one_iff.mp h
    have h2 : (d : ℂ) = n * N := by
      field_simp at hn
      rw [hn]; ring
    have h3 : (d : ℤ) = n * N := by exact_mod_cast h2
    rcases le_or_gt n 0 with hn0 | hn0
    · have : n * (N : ℤ) ≤ 0 := mul_nonpos_of_nonpos_of_nonneg hn0 (by positivity)
      omega
    · have : (N : ℤ) ≤ n * N := by nlinarith
      omega
  rw [geom_sum_eq hne, hpow]; simp

theorem sum_cos_eq_zero (d N : ℕ) (hd : 0 < d) (hdN : d < N) :
    ∑ i ∈ Finset.range N, Real.cos (2 * Real.pi * ((d * i : ℕ) : ℝ) / (N : ℝ)) = 0 := by
  have := congrArg Complex.re (sum_exp_eq_zero d N hd hdN)
  rw [Complex.re_sum] at this
  simp only [Complex.exp_ofReal_mul_I_re, Complex.zero_re] at this
  exact this

theorem sum_sin_eq_zero (d N : ℕ) (hd : 0 < d) (hdN : d < N) :
    ∑ i ∈ Finset.range N, Real.sin (2 * Real.pi * ((d * i : ℕ) : ℝ) / (N : ℝ)) = 0 := by
  have := congrArg Complex.im (sum_exp_eq_zero d N hd hdN)
  rw [Complex.im_sum] at this
  simp only [Complex.exp_ofReal_mul_I_im, Complex.zero_im] at this
  exact this

section real
open RealLike

/-- the model's `2π·k·n/N` at `ℝ` -/
theorem angle_real (k n N : Nat) : (angle k n N : ℝ) = 2 * Real.pi * ((k * n : ℕ) : ℝ) / (N : ℝ) := by
  unfold angle
  rw [ofNat'_real, ofNat'_real, two_lit]; rfl

theorem sum_range_shift (f : ℕ → ℝ) (n len : ℕ) :
    ∑ i ∈ Finset.range (len + 1), f (n + i) = f n + ∑ i ∈ Finset.range len, f (n + 1 + i) := by
  rw [Finset.sum_range_succ']
  simp only [Nat.add_zero]
  rw [add_comm]
  congr 1
  apply Finset.sum_congr rfl
  intro i _
  congr 1; omega

/-- subtracting a constant from the samples subtracts the constant times the sum of the cosines -/
theorem dftReFrom_sub_const (m : ℝ) (k N : Nat) (l : List ℝ) : ∀ n,
    dftReFrom k N n (l.map (· - m)) =
      dftReFrom k N n l - m * ∑ i ∈ Finset.range l.length, Real.cos (2 * Real.pi * ((k * (n + i) : ℕ) : ℝ) / (N : ℝ)) := by
  induction l with
  | nil => intro n; simp [dftReFrom, zero_lit]
  | cons v vs ih =>
    intro n
    simp only [List.map_cons, dftReFrom, ih, List.length_cons]
    rw [sum_range_shift (fun j => Real.cos (2 * Real.pi * ((k * j : ℕ) : ℝ) / (N : ℝ))) n vs.length]
    rw [angle_real]
    show (v - m) * Real.cos _ + _ = v * Real.cos _ + _ - _
    ring

theorem dftImFrom_sub_const (m : ℝ) (k N : Nat) (l : List ℝ) : ∀ n,
    dftImFrom k N n (l.map (· - m)) =
      dftImFrom k N n l - m * ∑ i ∈ Finset.range l.length, Real.sin (2 * Real.pi * ((k * (n + i) : ℕ) : ℝ) / (N : ℝ)) := by
  induction l with
  | nil => intro n; simp [dftImFrom, zero_lit]
  | cons v vs ih =>
    intro n
    simp only [List.map_cons, dftImFrom, ih, List.length_cons]
    rw [sum_range_shift (fun j => Real.sin (2 * Real.pi * ((k * j : ℕ) : ℝ) / (N : ℝ))) n vs.length]
    rw [angle_real]
    show (v - m) * Real.sin _ + _ = v * Real.sin _ + _ - _
    ring

/-- **The DFT of a constant vanishes off the zero-frequency bin**: for `0 < k < N` bin `k` of a length-`N`
    signal does not change when a constant is subtracted from the samples. -/
theorem dftSq_sub_const (m : ℝ) (l : List ℝ) (k : Nat) (hk : 0 < k) (hkN : k < l.length) :
    dftSq (l.map (· - m)) k = dftSq l k := by
  unfold dftSq
  rw [List.length_map, dftReFrom_sub_const, dftImFrom_sub_const]
  simp only [Nat.zero_add]
  rw [sum_cos_eq_zero k l.length hk hkN, sum_sin_eq_zero k l.length hk hkN]
  simp

end real
