/-! ## baseline look-up (`cumsum` of rising edges) and `np.unique` -/

/-- `cumsum(starts) - 1` as a scan: `cnt` rising edges seen so far, `prev` the previous mask value -/
def idxAux (cnt : Int) (prev : Bool) : List Bool → List Int
  | [] => []
  | b :: bs =>
    let cnt' := if b && !prev then cnt + 1 else cnt
    (cnt' - 1) :: idxAux cnt' b bs

theorem baselineIdx_eq_aux (l : List Bool) : ∀ (cnt : Int) (prev : Bool),
    (cumsumFrom cnt ((diff (boolInt prev :: l.map boolInt)).map fun d => boolInt (decide (d > 0)))).map (· - 1)
      = idxAux cnt prev l := by
  induction l with
  | nil => intro cnt prev; simp [diff, cumsumFrom, idxAux]
  | cons b bs ih =>
    intro cnt prev
    have ihf := fun cnt => ih cnt false
    have iht := fun cnt => ih cnt true
    simp [boolInt] at ihf iht
    cases b <;> cases prev <;> simp [diff, cumsumFrom, idxAux, boolInt, List.map_cons, ihf, iht]

theorem baselineIndices_eq (l : List Bool) : baselineIndices l = idxAux 0 false l := by
  unfold baselineIndices
  have := baselineIdx_eq_aux l 0 false
  simpa [boolInt] using this

theorem idxAux_length (l : List Bool) : ∀ cnt prev, (idxAux cnt prev l).length = l.length := by
  induction l with
  | nil => intro _ _; rfl
  | cons b bs ih => intro cnt prev; simp [idxAux, ih]

theorem idxAux_shift (l : List Bool) : ∀ (cnt c : Int) (prev : Bool),
    idxAux (cnt + c) prev l = (idxAux cnt prev l).map (· + c) := by
  induction l with
  | nil => intro _ _ _; rfl
  | cons b bs ih =>
    intro cnt c prev
    simp only [idxAux, List.map_cons]
    split
    · rw [show cnt + c + 1 = (cnt + 1) + c by omega, ih]
      congr 1; omega
    · rw [ih]; congr 1; omega

/-- The look-up `baseline_indices[p]` of a bin `p` inside a run is the position of that run in the list
    of runs. -/
theorem lookup_run (l : List Bool) : ∀ i s, s ≤ i →
    ∀ j (hj : j < l.length), l[j] = true →
      ∃ k : Nat, (idxAux (if s < i then 1 else 0) (decide (s < i)) l)[j]'(by rw [idxAux_length]; exact hj) = (k : Int) ∧
        ∃ r, (runsFrom i s l)[k]? = some r ∧ r.1 ≤ i + j ∧ i + j ≤ r.2 := by
  induction l with
  | nil => intro i s _ j hj; simp at hj
  | cons b bs ih =>
    intro i s hsi j hj hl
    cases b
    · -- a `false` bin closes the open run
      cases j with
      | zero => simp at hl
      | succ j =>
        simp only [List.getElem_cons_succ] at hl
        have hj' : j < bs.length := by simpa using hj
        obtain ⟨k, hk, r, hr, h1, h2⟩ := ih (i + 1) (i + 1) (Nat.le_refl _) j hj' hl
        simp only [Nat.lt_irrefl, ↓reduceIte, decide_false] at hk
        by_cases hlt : s < i
        · refine ⟨k + 1, ?_, r, ?_, by omega, by omega⟩
          · simp only [idxAux, hlt, ↓reduceIte, Bool.false_and, Bool.false_eq_true,
              List.getElem_cons_succ]
            have := idxAux_shift bs 0 1 false
            simp only [Int.zero_add] at this
            simp only [this, List.getElem_map, hk]
            omega
          · simp [runsFrom, hlt, hr]
        · refine ⟨k, ?_, r, ?_, by omega, by omega⟩
          · simp only [idxAux, hlt, ↓reduceIte, Bool.false_and, Bool.false_eq_true,
              List.getElem_cons_succ, hk]
          · simp [runsFrom, hlt, hr]
    · -- a `true` bin: the run `[s, …)` is (or becomes) open
      have hcnt : (if (true && !decide (s < i)) = true then (if s < i then (1:Int) else 0) + 1
          else (if s < i then 1 else 0)) = 1 := by
        by_cases hlt : s < i <;> simp [hlt]
      cases j with
      | zero =>
        obtain ⟨e, he, hle⟩ := runs_head bs (i + 1) s (by omega)
        refine ⟨0, ?_, (s, e), ?_, by simp; omega, by simp; omega⟩
        · simp only [idxAux, hcnt, List.getElem_cons_zero]; rfl
        · simpa [runsFrom] using he
      | succ j =>
        simp only [List.getElem_cons_succ] at hl
        have hj' : j < bs.length := by simpa using hj
        obtain ⟨k, hk, r, hr, h1, h2⟩ := ih (i + 1) s (by omega) j hj' hl
        have hlt : s < i + 1 := by omega
        simp only [hlt, ↓reduceIte, decide_true] at hk
        refine ⟨k, ?_, r, ?_, by omega, by omega⟩
        · simp only [idxAux, hcnt, List.getElem_cons_succ, hk]
        · simpa [runsFrom] using hr

theorem mem_insertUniq (x y : Int) (l : List Int) : y ∈ insertUniq x l ↔ y = x ∨ y ∈ l := by
  induction l with
  | nil => simp [insertUniq]
  | cons z zs ih =>
    simp only [insertUniq]
    split
    · simp
    · split
      · rename_i h; subst h; simp
      · simp only [List.mem_cons, ih]
        constructor
        · rintro (h | h | h) <;> simp [h]
        · rintro (h | h | h) <;> simp [h]

theorem mem_unique (y : Int) (l : List Int) : y ∈ unique l ↔ y ∈ l := by
  induction l with
  | nil => simp [unique]
  | cons x xs ih =>
    have : unique (x :: xs) = insertUniq x (unique xs) := rfl
    rw [this, mem_insertUniq, ih]; simp

theorem insertUniq_sorted (x : Int) (l : List Int) (h : l.Pairwise (· < ·)) :
    (insertUniq x l).Pairwise (· < ·) := by
  induction l with
  | nil => simp [insertUniq]
  | cons z zs ih =>
    obtain ⟨h1, h2⟩ := List.pairwise_cons.mp h
    simp only [insertUniq]
    split
    · rename_i hlt
      refine List.pairwise_cons.mpr ⟨?_, h⟩
      intro a ha
      rcases List.mem_cons.mp ha with ha | ha
      · omega
      · have := h1 a ha; omega
    · split
      · exact h
      · refine List.pairwise_cons.mpr ⟨?_, ih h2⟩
        intro a ha
        rcases (mem_insertUniq x a zs).mp ha with ha | ha
        · omega
        · exact h1 a ha

theorem unique_sorted (l : List Int) : (unique l).Pairwise (· < ·) := by
  induction l with
  | nil => simp [unique]
  | cons x xs ih => exact insertUniq_sorted x _ ih

theorem mapM_option_of_forall {β γ} (f : β → Option γ) (g : β → γ) (l : List β)
    (h : ∀ x ∈ l, f x = some (g x)) : l.mapM f = some (l.map g) := by
  induction l with
  | nil => rfl
  | cons x xs ih =>
    rw [List.mapM_cons, h x (by simp), ih (fun y hy => h y (by simp [hy]))]
    rfl

theorem mapM_option_some {β γ} (f : β → Option γ) : ∀ (l : List β) (out : List γ),
    l.mapM f = some out → List.Forall₂ (fun x y => f x = some y) l out := by
  intro l
  induction l with
  | nil => intro out h; simp at h; subst h; exact List.Forall₂.nil
  | cons x xs ih =>
    intro out h
    rw [List.mapM_cons] at h
    cases hf : f x with
    | none => simp [hf] at h
    | some y =>
      cases hr : xs.mapM f with
      | none => simp [hf, hr] at h
      | some ys =>
        simp [hf, hr] at h
        subst h
        exact List.Forall₂.cons hf (ih ys hr)
