/-! ## the `ℝ` reading of the DFT / PSD formulas -/

section real
open RealLike

theorem ofNat'_real (n : Nat) : (ofNat' n : ℝ) = (n : ℝ) := by
  unfold ofNat'
  simp only [OfScientific.ofScientific, Rat.ofScientific_false_def, Nat.pow_zero, Nat.mul_one]
  norm_cast

theorem zero_lit : (0.0 : ℝ) = 0 := by norm_num
theorem one_lit : (1.0 : ℝ) = 1 := by norm_num
theorem two_lit : (2.0 : ℝ) = 2 := by norm_num

theorem rsum_real (l : List ℝ) : rsum l = l.sum := by
  induction l with
  | nil => simp [rsum, zero_lit]
  | cons x xs ih => simp [rsum, ih]

theorem rsum_map_mul (a : ℝ) (l : List ℝ) : rsum (l.map (a * ·)) = a * rsum l := by
  induction l with
  | nil => simp [rsum, zero_lit]
  | cons x xs ih => simp only [List.map_cons, rsum, ih]; ring

theorem rsum_map_add (c : ℝ) (l : List ℝ) : rsum (l.map (· + c)) = rsum l + l.length * c := by
  induction l with
  | nil => simp [rsum, zero_lit]
  | cons x xs ih => simp only [List.map_cons, rsum, ih, List.length_cons]; push_cast; ring

theorem mean_map_mul (a : ℝ) (l : List ℝ) : mean (l.map (a * ·)) = a * mean l := by
  unfold mean
  rw [rsum_map_mul, List.length_map]; ring

theorem demean_map_mul (a : ℝ) (l : List ℝ) : demean (l.map (a * ·)) = (demean l).map (a * ·) := by
  unfold demean
  simp only [mean_map_mul, List.map_map]
  apply List.map_congr_left
  intro v _
  simp only [Function.comp]; ring

theorem demean_map_add (c : ℝ) (l : List ℝ) : demean (l.map (· + c)) = demean l := by
  unfold demean
  cases l with
  | nil => rfl
  | cons x xs =>
    have hne : ((x :: xs).length : ℝ) ≠ 0 := by simp; positivity
    have hm : mean ((x :: xs).map (· + c)) = mean (x :: xs) + c := by
      unfold mean
      rw [rsum_map_add, List.length_map, ofNat'_real]
      field_simp
    rw [hm, List.map_map]
    apply List.map_congr_left
    intro v _
    simp only [Function.comp]; ring

theorem dftReFrom_map_mul (a : ℝ) (k N : Nat) (l : List ℝ) : ∀ n,
    dftReFrom k N n (l.map (a * ·)) = a * dftReFrom k N n l := by
  induction l with
  | nil => intro n; simp [dftReFrom, zero_lit]
  | cons x xs ih => intro n; simp only [List.map_cons, dftReFrom, ih]; ring

theorem dftImFrom_map_mul (a : ℝ) (k N : Nat) (l : List ℝ) : ∀ n,
    dftImFrom k N n (l.map (a * ·)) = a * dftImFrom k N n l := by
  induction l with
  | nil => intro n; simp [dftImFrom, zero_lit]
  | cons x xs ih => intro n; simp only [List.map_cons, dftImFrom, ih]; ring

theorem dftSq_map_mul (a : ℝ) (l : List ℝ) (k : Nat) :
    dftSq (l.map (a * ·)) k = a * a * dftSq l k := by
  unfold dftSq
  rw [List.length_map, dftReFrom_map_mul, dftImFrom_map_mul]
  simp only [RealLike.sq]; ring

theorem rfftSq_map_mul (a : ℝ) (l : List ℝ) : rfftSq (l.map (a * ·)) = (rfftSq l).map (a * a * ·) := by
  unfold rfftSq
  rw [List.length_map, List.map_map]
  apply List.map_congr_left
  intro k _
  exact dftSq_map_mul a l k

theorem chunks_map {β γ} (g : β → γ) (l : List β) (npw : Nat) :
    chunks (l.map g) npw = (chunks l npw).map (List.map g) := by
  unfold chunks
  rw [List.length_map, List.map_map]
  apply List.map_congr_left
  intro c _
  simp [List.map_take, List.map_drop]

theorem chunks_length {β} (l : List β) (npw : Nat) : (chunks l npw).length = l.length / npw := by
  simp [chunks]

theorem meanRows_map_mul (s : ℝ) (rows : List (List ℝ)) (w : Nat) :
    meanRows (rows.map (List.map (s * ·))) w = (meanRows rows w).map (s * ·) := by
  unfold meanRows
  rw [List.map_map, List.length_map]
  apply List.map_congr_left
  intro k _
  simp only [Function.comp, List.map_map]
  have : (fun r : List ℝ => (List.map (s * ·) r).getD k 0.0) = fun r => s * r.getD k 0.0 := by
    funext r
    simp only [List.getD_eq_getElem?_getD, List.getElem?_map]
    cases r[k]? <;> simp [zero_lit]
  have h2 : (rows.map fun r : List ℝ => s * r.getD k 0.0) = (rows.map fun r => r.getD k 0.0).map (s * ·) := by
    rw [List.map_map]; rfl
  show rsum (rows.map ((fun r : List ℝ => (List.map (s * ·) r).getD k 0.0))) / _ = _
  rw [this, h2, rsum_map_mul]; ring

end real
