
/-! ## masks -/

theorem maskSelect_map {β} (q : β → Bool) (l : List β) :
    maskSelect l (l.map q) = l.filter q := by
  unfold maskSelect
  induction l with
  | nil => rfl
  | cons x xs ih =>
    simp only [List.map_cons, List.zip_cons_cons, List.filterMap_cons, List.filter_cons]
    cases q x <;> simp [ih]

/-- Selecting from two arrays with one mask computed from the first keeps the pairs together. -/
theorem maskSelect_zip {β γ} (q : β → Bool) (f : List β) (p : List γ) (h : f.length = p.length) :
    (maskSelect f (f.map q)).zip (maskSelect p (f.map q)) = (f.zip p).filter (fun b => q b.1) := by
  unfold maskSelect
  induction f generalizing p with
  | nil => simp
  | cons x xs ih =>
    cases p with
    | nil => simp at h
    | cons y ys =>
      simp only [List.length_cons, Nat.add_right_cancel_iff] at h
      simp only [List.map_cons, List.zip_cons_cons, List.filterMap_cons, List.filter_cons]
      cases q x <;> simp [ih ys h]

theorem maskSelect_snd {β γ} (q : β → Bool) (f : List β) (p : List γ) (h : f.length = p.length) :
    maskSelect p (f.map q) = ((f.zip p).filter (fun b => q b.1)).map Prod.snd := by
  unfold maskSelect
  induction f generalizing p with
  | nil => cases p <;> simp at h ⊢
  | cons x xs ih =>
    cases p with
    | nil => simp at h
    | cons y ys =>
      simp only [List.length_cons, Nat.add_right_cancel_iff] at h
      simp only [List.map_cons, List.zip_cons_cons, List.filterMap_cons, List.filter_cons]
      cases q x <;> simp [ih ys h]

theorem andReduce_map {β} {ρ} (f : List β) (q : ρ → β → Bool) (ranges : List ρ) :
    andReduce f.length (ranges.map fun r => f.map (q r)) = f.map fun x => ranges.all fun r => q r x := by
  unfold andReduce
  have key : ∀ (g : β → Bool),
      (ranges.map fun r => f.map (q r)).foldl (fun acc m => List.zipWith (· && ·) acc m) (f.map g)
        = f.map fun x => g x && ranges.all fun r => q r x := by
    induction ranges with
    | nil => intro g; simp
    | cons r rs ih =>
      intro g
      simp only [List.map_cons, List.foldl_cons, List.all_cons]
      have : List.zipWith (· && ·) (f.map g) (f.map (q r)) = f.map fun x => g x && q r x := by
        simp [List.zipWith_map, List.zipWith_self]
      rw [this, ih]
      simp [Bool.and_assoc]
  have h0 : List.replicate f.length true = f.map fun _ => true := by
    simp [List.map_const']
  rw [h0, key]
  simp


theorem maskSelect_fst {β γ} (q : β → Bool) (f : List β) (p : List γ) (h : f.length = p.length) :
    maskSelect f (f.map q) = ((f.zip p).filter (fun b => q b.1)).map Prod.fst := by
  unfold maskSelect
  induction f generalizing p with
  | nil => simp
  | cons x xs ih =>
    cases p with
    | nil => simp at h
    | cons y ys =>
      simp only [List.length_cons, Nat.add_right_cancel_iff] at h
      simp only [List.map_cons, List.zip_cons_cons, List.filterMap_cons, List.filter_cons]
      cases q x <;> simp [ih ys h]

theorem zip_map_fst_snd {β γ} (K : List (β × γ)) : (K.map Prod.fst).zip (K.map Prod.snd) = K := by
  induction K with
  | nil => rfl
  | cons x xs ih => simp [ih]
