/-! ## contiguous ranges (`grab_contiguous_ranges`) -/

/-- positions where the value changes, scanning from index `i` with previous value `prev`; a final
    falling edge closes an open run (`append=0`) -/
def edgesAux (prev : Bool) (i : Nat) : List Bool → List Nat
  | [] => if prev then [i] else []
  | b :: bs => if b ≠ prev then i :: edgesAux b (i + 1) bs else edgesAux b (i + 1) bs

theorem nonzero_diff_eq_edges (prev : Bool) (i : Nat) (l : List Bool) :
    nonzeroFrom i (diff (boolInt prev :: (l.map boolInt ++ [0]))) = edgesAux prev i l := by
  induction l generalizing prev i with
  | nil => cases prev <;> simp [diff, nonzeroFrom, edgesAux, boolInt]
  | cons b bs ih =>
    have := ih b (i + 1)
    cases b <;> cases prev <;>
      simp_all [diff, nonzeroFrom, edgesAux, boolInt]

/-- Specification-side scan: the maximal runs of `true`, `s` = start of the run that is open at index `i`
    (`s = i`: no run is open). -/
def runsFrom (i s : Nat) : List Bool → List (Nat × Nat)
  | [] => if s < i then [(s, i - 1)] else []
  | true :: bs => runsFrom (i + 1) s bs
  | false :: bs => if s < i then (s, i - 1) :: runsFrom (i + 1) (i + 1) bs else runsFrom (i + 1) (i + 1) bs

theorem pairUp_edges (l : List Bool) : ∀ (i : Nat),
    ((pairUp (edgesAux false i l)).map (fun r => (r.1, r.2 - 1)) = runsFrom i i l) ∧
    (∀ s, s < i → (pairUp (s :: edgesAux true i l)).map (fun r => (r.1, r.2 - 1)) = runsFrom i s l) := by
  induction l with
  | nil =>
    intro i
    constructor
    · simp [edgesAux, pairUp, runsFrom]
    · intro s hs; simp [edgesAux, pairUp, runsFrom, hs]
  | cons b bs ih =>
    intro i
    obtain ⟨iha, ihb⟩ := ih (i + 1)
    cases b
    · constructor
      · simp [edgesAux, runsFrom, iha]
      · intro s hs
        simp [edgesAux, runsFrom, pairUp, iha, hs]
    · constructor
      · simp only [edgesAux, runsFrom]
        simpa using ihb i (by omega)
      · intro s hs
        simp only [edgesAux, runsFrom]
        simpa using ihb s (by omega)

theorem grab_eq_runs (mask : List Bool) : grabContiguousRanges mask = runsFrom 0 0 mask := by
  unfold grabContiguousRanges
  have h := nonzero_diff_eq_edges false 0 mask
  simp only [boolInt, Bool.false_eq_true, ↓reduceIte] at h
  simp only [h]
  exact (pairUp_edges mask 0).1

/-- the list `l`, placed at offset `i`, is described by the predicate `m` -/
def Agrees (m : Nat → Bool) (i : Nat) (l : List Bool) : Prop :=
  ∀ j (h : j < l.length), l[j] = m (i + j)

theorem Agrees.head {m i b bs} (h : Agrees m i (b :: bs)) : b = m i := by
  have := h 0 (by simp)
  simpa using this

theorem Agrees.tail {m i b bs} (h : Agrees m i (b :: bs)) : Agrees m (i + 1) bs := by
  intro j hj
  have := h (j + 1) (by simp; omega)
  simp only [List.getElem_cons_succ] at this
  rw [this]; congr 1; omega

theorem agrees_getD (l : List Bool) : Agrees (fun j => l.getD j false) 0 l := by
  intro j hj
  simp [List.getD_eq_getElem?_getD, List.getElem?_eq_getElem hj]

/-- `r` is a maximal run of `true` of a mask of length `n` described by `m` -/
def RunOK (m : Nat → Bool) (n : Nat) (r : Nat × Nat) : Prop :=
  r.1 ≤ r.2 ∧ r.2 < n ∧ (∀ j, r.1 ≤ j → j ≤ r.2 → m j = true) ∧
    (r.1 = 0 ∨ m (r.1 - 1) = false) ∧ (r.2 + 1 = n ∨ m (r.2 + 1) = false)

/-- scan invariant: the open run `[s, i)` is all `true` and cannot be extended to the left -/
def Inv (m : Nat → Bool) (i s : Nat) : Prop :=
  s ≤ i ∧ (∀ j, s ≤ j → j < i → m j = true) ∧ (s = 0 ∨ m (s - 1) = false)

theorem runs_ok (m : Nat → Bool) (l : List Bool) : ∀ i s, Agrees m i l → Inv m i s →
    ∀ r ∈ runsFrom i s l, RunOK m (i + l.length) r := by
  induction l with
  | nil =>
    intro i s _ hinv r hr
    simp only [runsFrom] at hr
    split at hr
    · simp only [List.mem_singleton] at hr
      subst hr
      obtain ⟨h1, h2, h3⟩ := hinv
      refine ⟨by simp; omega, by simp; omega, ?_, h3, ?_⟩
      · intro j hj1 hj2; exact h2 j hj1 (by simp at hj2; omega)
      · left; simp; omega
    · simp at hr
  | cons b bs ih =>
    intro i s hag hinv r hr
    have hb := hag.head
    have htl := hag.tail
    obtain ⟨h1, h2, h3⟩ := hinv
    have hlen : i + (b :: bs).length = (i + 1) + bs.length := by simp; omega
    rw [hlen]
    cases b
    · simp only [runsFrom] at hr
      have hinv' : Inv m (i + 1) (i + 1) := ⟨Nat.le_refl _, by intro j a b; omega, by right; simpa using hb.symm⟩
      split at hr
      · rename_i hsi
        rcases List.mem_cons.mp hr with hr | hr
        · subst hr
          refine ⟨by simp; omega, by simp; omega, ?_, h3, ?_⟩
          · intro j hj1 hj2; exact h2 j hj1 (by simp at hj2; omega)
          · right
            have : i - 1 + 1 = i := by omega
            simp only [this]; exact hb.symm
        · exact ih (i + 1) (i + 1) htl hinv' r hr
      · exact ih (i + 1) (i + 1) htl hinv' r hr
    · simp only [runsFrom] at hr
      refine ih (i + 1) s htl ⟨by omega, ?_, h3⟩ r hr
      intro j hj1 hj2
      by_cases hji : j = i
      · subst hji; exact hb.symm
      · exact h2 j hj1 (by omega)

theorem runs_cover (m : Nat → Bool) (l : List Bool) : ∀ i s, Agrees m i l → s ≤ i →
    ∀ j, s ≤ j → j < i + l.length → m j = true → ∃ r ∈ runsFrom i s l, r.1 ≤ j ∧ j ≤ r.2 := by
  induction l with
  | nil =>
    intro i s _ hsi j hj1 hj2 _
    simp only [List.length_nil, Nat.add_zero] at hj2
    refine ⟨(s, i - 1), ?_, hj1, by simp; omega⟩
    simp [runsFrom]; omega
  | cons b bs ih =>
    intro i s hag hsi j hj1 hj2 hmj
    have hb := hag.head
    have htl := hag.tail
    have hlen : i + (b :: bs).length = (i + 1) + bs.length := by simp; omega
    rw [hlen] at hj2
    cases b
    · have hji : j ≠ i := by intro h; subst h; rw [hmj] at hb; cases hb
      simp only [runsFrom]
      by_cases hlt : j < i
      · have hs : s < i := by omega
        rw [if_pos hs]
        exact ⟨(s, i - 1), by simp, hj1, by simp; omega⟩
      · obtain ⟨r, hr, h1, h2⟩ := ih (i + 1) (i + 1) htl (Nat.le_refl _) j (by omega) hj2 hmj
        split
        · exact ⟨r, List.mem_cons_of_mem _ hr, h1, h2⟩
        · exact ⟨r, hr, h1, h2⟩
    · simp only [runsFrom]
      exact ih (i + 1) s htl (by omega) j hj1 hj2 hmj

/-- the runs are reported in increasing order and are separated by at least one `false` bin -/
theorem runs_sorted (l : List Bool) : ∀ i s, s ≤ i →
    (runsFrom i s l).Pairwise (fun r t => r.2 + 1 < t.1) ∧ (∀ r ∈ runsFrom i s l, s ≤ r.1) := by
  induction l with
  | nil =>
    intro i s _
    simp only [runsFrom]
    split <;> simp
  | cons b bs ih =>
    intro i s hsi
    cases b
    · simp only [runsFrom]
      obtain ⟨ih1, ih2⟩ := ih (i + 1) (i + 1) (Nat.le_refl _)
      split
      · rename_i hlt
        refine ⟨List.pairwise_cons.mpr ⟨?_, ih1⟩, ?_⟩
        · intro t ht
          have := ih2 t ht
          simp; omega
        · intro r hr
          rcases List.mem_cons.mp hr with hr | hr
          · subst hr; exact Nat.le_refl _
          · have := ih2 r hr; omega
      · exact ⟨ih1, fun r hr => by have := ih2 r hr; omega⟩
    · simp only [runsFrom]
      exact ih (i + 1) s (by omega)

theorem runs_head (l : List Bool) : ∀ i s, s < i →
    ∃ e, (runsFrom i s l)[0]? = some (s, e) ∧ i ≤ e + 1 := by
  induction l with
  | nil => intro i s h; exact ⟨i - 1, by simp [runsFrom, h], by omega⟩
  | cons b bs ih =>
    intro i s h
    cases b
    · exact ⟨i - 1, by simp [runsFrom, h], by omega⟩
    · obtain ⟨e, he, hle⟩ := ih (i + 1) s (by omega)
      exact ⟨e, by simpa [runsFrom] using he, by omega⟩
