/-
  C10 — helper lemmas for the power-spectrum model (masks, block means, peak ranges, DFT).
-/
import Verif.Model.C10
import Verif.NumReal
import Mathlib.Tactic.FieldSimp
import Mathlib.Analysis.SpecialFunctions.Complex.Log
import Mathlib.Algebra.Field.GeomSum
import Mathlib.Tactic.Positivity
import Mathlib.Order.Defs.LinearOrder
import Mathlib.Tactic.Ring
import Mathlib.Tactic.Linarith
import Mathlib.Data.List.Forall2

