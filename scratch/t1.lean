#check @Rat.floor
#check @Nat.log2_self_le
#check @Nat.lt_log2_self
#check @Nat.log2_lt
#check @Rat.num_div_den
#check @Int.tdiv
#eval (7/2 : Rat).floor
#eval ((-7)/2 : Rat).floor
#eval Int.tdiv (-7) 2
#check @Rat.le_floor
#check @Rat.floor_le
#check @Rat.lt_floor_add_one
