import Verif.Model.C17
open Verif.C17
#eval removeInRect ⟨1 / 10, some (1 / 10), 1 / 8⟩ ⟨1 / 2, 1, 0, 0⟩ false
      [⟨[(0, 1), (5, 2)], none, none⟩, ⟨[(1, 12), (2, 3)], none, none⟩, ⟨[(4, 1)], none, none⟩]
example : Rect.ordered ⟨1 / 2, 1, 0, 0⟩ = ⟨0, 0, 1/2, 1⟩ := by decide +kernel
example : ptInRect ⟨1 / 10, some (1 / 10), 1 / 8⟩ ⟨0, 0, 1/2, 1⟩ (1, 12) = false := by decide +kernel
example : ptInRect ⟨1 / 10, some (1 / 10), 1 / 8⟩ ⟨0, 0, 1/2, 1⟩ (2, 3) = true := by decide +kernel
