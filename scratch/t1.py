import sys, os
sys.path.insert(0, "/tmp/vw/C08/harness"); 
import common
sys.path.insert(0, common.REPO)
import numpy as np
from common import enc_float, enc_listlist, Rng, run_driver
from lumicks.pylake.kymotracker.detail.peakfinding import KymoPeaks
from lumicks.pylake.kymotracker.detail.trace_line_2d import points_to_line_segments
from lumicks.pylake.kymotracker.detail.scoring_functions import kymo_score

rng = Rng(1)
ops=[]; exp=[]
for it in range(300):
    nf = rng.randint(1, 8)
    coords=[]; times=[]; amps=[]
    frames=[]
    for f in range(nf):
        k = rng.randint(0, 4) if f < nf-1 else rng.randint(1,4)
        cs = [rng.uniform(0, 20) for _ in range(k)]
        am = [float(rng.randint(1, 1000)) + rng.random() for _ in range(k)]
        frames.append((cs, am))
        coords += cs; times += [f]*k; amps += am
    window = rng.randint(-1, 4); vel = rng.uniform(-1,1); sigma = rng.uniform(0.5, 3); diff = rng.uniform(0, 2); cutoff = rng.uniform(0.5, 3)
    peaks = KymoPeaks(np.array(coords), np.array(times, dtype=np.int64), np.array(amps))
    lines = points_to_line_segments(peaks, kymo_score(vel=vel, sigma=sigma, diffusion=diff), window=window, sigma_cutoff=cutoff)
    out=[]
    for l in lines:
        tr=[]
        for t,c in zip(l.time_idx, l.coordinate_idx):
            j = frames[int(t)][0].index(float(c))
            tr.append(f"{int(t)}:{j}")
        out.append(",".join(tr))
    exp.append("["+";".join(out)+"]")
    ops.append(f"c08.link {window} {enc_float(vel)} {enc_float(sigma)} {enc_float(diff)} {enc_float(cutoff)} {enc_listlist([f[0] for f in frames], enc_float)} {enc_listlist([f[1] for f in frames], enc_float)}")
ans = run_driver(ops)
bad = [(o,a,e) for o,a,e in zip(ops,ans,exp) if a!=e]
print(len(bad), "bad of", len(ops))
for b in bad[:3]: print(b)
print(ans[:3])
