import sys; sys.path.insert(0,'/repo')
import numpy as np
import lumicks.pylake as lk
from lumicks.pylake.fitting.model import Model
from lumicks.pylake.fitting.parameters import Parameter

# 1. collision "5" vs 5
def lin(x, a, b): return a + b*x
def lin_jac(x, a, b): return np.vstack((np.ones(len(x)), x))
m = Model("M", lin, jacobian=lin_jac, a=Parameter(1.0), b=Parameter(2.0))
fit = lk.FdFit(m)
x = np.arange(5.0)
d1 = fit._add_data("d1", x, 5+2*x, params={"M/a": 5})
d2 = fit._add_data("d2", x, 1+2*x, params={"M/a": "5"})
print(fit.params)
for c, dl in fit.datasets[m.uuid].conditions():
    print([d.name for d in dl], c.get_local_params(fit.params.values), c.p_indices, c._p_global_indices)
print(fit.params[d1], fit.params[d2])

# 2. misaligned defaults with empty first model
m1 = lk.force_offset("A")
m2 = lk.ewlc_odijk_distance("B")
fit = lk.FdFit(m1, m2)
fit[m2].add_data("d", np.array([1.,2,3]), np.array([1.,2,3]))
print(fit.params)
fit = lk.FdFit(m2, m1)
fit[m2].add_data("d", np.array([1.,2,3]), np.array([1.,2,3]))
print(fit.params)

# 3. duplicate indices within one dataset
def lin_jac(x, a, b): return np.vstack((np.ones(len(x)), x))
m = Model("M", lin, jacobian=lin_jac, a=Parameter(1.0), b=Parameter(2.0))
fit = lk.FdFit(m)
fit._add_data("d1", x, 3+3*x, params={"M/b": "M/a"})
print(fit.params)
print(fit._calculate_jacobian())
fit.params["M/a"].value=1.0
fit.fit()
print(fit.params)
print(fit.verify_jacobian(fit.params.values))
