import sys, json, warnings
sys.path.insert(0, "/repo")
import numpy as np
from lumicks.pylake.low_level import create_confocal_object, make_continuous_slice
from lumicks.pylake.channel import Slice, Continuous, empty_slice
START=1_600_000_000_000_000_000
DT=12800
def js(axes, count=0):
    return json.dumps({"value0": {"cereal_class_version": 1, "fluorescence": True, "force": False, "scan count": count,
      "scan volume": {"center point (um)": {"x": 0.0, "y": 0.0, "z": 0.0}, "cereal_class_version": 1, "pixel time (ms)": 0.2,
        "scan axes": [{"axis": a, "cereal_class_version": 1, "num of pixels": n, "pixel size (nm)": 100.0, "scan time (ms)": 0, "scan width (um)": n*0.1} for a,n in axes]}}})
iw = [0,0] + ([1,2]*3 + [0])*2 + [1,2,1]
data = list(range(1, len(iw)+1))
k = create_confocal_object("k", make_continuous_slice(np.array(iw, dtype=np.uint8), START, DT), js([(0,3)]), red_channel=make_continuous_slice(np.array(data), START, DT))
print(k.get_image("red"), k.get_image("green"), k.shape, k.pixels_per_line)
# truncated red
k = create_confocal_object("k", make_continuous_slice(np.array(iw, dtype=np.uint8), START, DT), js([(0,3)]), red_channel=make_continuous_slice(np.array(data[:9]), START, DT))
with warnings.catch_warnings(record=True) as w:
    warnings.simplefilter("always")
    print(k.get_image("red"), [str(x.message) for x in w])
# lead
k = create_confocal_object("k", make_continuous_slice(np.array(iw, dtype=np.uint8), START, DT), js([(0,3)]), red_channel=make_continuous_slice(np.array([100,100,100]+data+[7,7]), START-3*DT, DT))
print(k.get_image("red"))
iw2 = ([1,2]*2+[0])*2*2  # P=2, L=2, 2 frames
d2 = list(range(1,len(iw2)+1))
for axes in ([(0,2),(1,3)], [(1,2),(0,3)]):
  for cnt in (0, 2):
    iw2 = (([1,2]*2+[0])*3+[0,0])*2
    d2 = list(range(1,len(iw2)+1))
    s = create_confocal_object("s", make_continuous_slice(np.array(iw2, dtype=np.uint8), START, DT), js(axes, cnt), green_channel=make_continuous_slice(np.array(d2), START, DT))
    print(axes, cnt, s.get_image("green").tolist(), s.get_image("red").shape, s.shape, s.num_frames, s.pixels_per_line, s.lines_per_frame)
