import Verif.Lemmas.C10
namespace Verif.C10

theorem roundDown_le (n k : Nat) : roundDown n k ≤ n := by
  unfold roundDown; exact Nat.div_mul_le_self n k

theorem reshapeRows_length {β} (k : Nat) (l : List β) : (reshapeRows k l).length = l.length / k := by
  simp [reshapeRows]

/-- Row `i` of `reshape(-1,k)` of the truncated data consists of the elements `i*k … i*k+k-1`. -/
theorem window_eq {β} (d : β) (l : List β) (m s k : Nat) (hm : m ≤ l.length) (hs : s + k ≤ m) :
    ((l.take m).drop s).take k = (List.range k).map fun j => l.getD (s + j) d := by
  apply List.ext_getElem
  · simp; omega
  · intro j h1 h2
    simp at h1 h2
    simp only [List.getElem_take, List.getElem_drop, List.getElem_map, List.getElem_range]
    rw [List.getD_eq_getElem?_getD, List.getElem?_eq_getElem (by omega)]
    rfl

theorem downsampleMean_length (k : Nat) (hk : 0 < k) (l : List Rat) :
    (downsampleMean k l).length = l.length / k := by
  unfold downsampleMean
  rw [List.length_map, reshapeRows_length, List.length_take, Nat.min_eq_left (roundDown_le _ _)]
  unfold roundDown
  exact Nat.mul_div_cancel _ hk

theorem downsampleMean_getElem (k : Nat) (hk : 0 < k) (l : List Rat) (i : Nat) (hi : i < l.length / k) :
    (downsampleMean k l)[i]'(by rw [downsampleMean_length k hk]; exact hi) =
      ((List.range k).map fun j => l.getD (i * k + j) 0).sum / (k : Rat) := by
  have hlen : (l.take (roundDown l.length k)).length / k = l.length / k := by
    rw [List.length_take, Nat.min_eq_left (roundDown_le _ _)]
    unfold roundDown
    exact Nat.mul_div_cancel _ hk
  unfold downsampleMean reshapeRows
  simp only [List.getElem_map, List.getElem_range]
  rw [window_eq 0 l (roundDown l.length k) (i * k) k (roundDown_le _ _)]
  unfold roundDown
  calc i * k + k = (i + 1) * k := by ring
    _ ≤ l.length / k * k := Nat.mul_le_mul_right k hi

end Verif.C10
