import subprocess, sys, os
WT = "/tmp/wt_C10"
PS = "lumicks/pylake/force_calibration/power_spectrum.py"
PC = "lumicks/pylake/force_calibration/power_spectrum_calibration.py"
UT = "lumicks/pylake/detail/utilities.py"
M = [
 ("M1 scaling 2/fs -> 1/fs", PS, "scaling_factor = (2.0 / sample_rate) / num_points_per_window", "scaling_factor = (1.0 / sample_rate) / num_points_per_window"),
 ("M2 in_range > -> >=", PS, "mask = (self.frequency > frequency_min) & (self.frequency <= frequency_max)", "mask = (self.frequency >= frequency_min) & (self.frequency <= frequency_max)"),
 ("M3 exclude >= f_max -> >", PS, "(ps.frequency < f_min) | (ps.frequency >= f_max)", "(ps.frequency < f_min) | (ps.frequency > f_max)"),
 ("M4 nppb not multiplied", PS, "ba.num_points_per_block = self.num_points_per_block * factor", "ba.num_points_per_block = factor"),
 ("M5 peaks: ranges[:,1] -= 1 dropped", PS, "            ranges[:, 1] -= 1\n", ""),
 ("M6 window mean -> sum", PS, "squared_fft = np.mean(squared_fft_chunks, axis=0)", "squared_fft = np.sum(squared_fft_chunks, axis=0)"),
 ("M7 pipeline: block before exclude", PC, "    power_spectrum = power_spectrum.in_range(*fit_range)._exclude_range(excluded_ranges)\n    power_spectrum = power_spectrum.downsampled_by(num_points_per_block)", "    power_spectrum = power_spectrum.in_range(*fit_range).downsampled_by(num_points_per_block)\n    power_spectrum = power_spectrum._exclude_range(excluded_ranges)"),
 ("M8 no mean removal", PS, "data = data - np.mean(data)", "data = data - 0.0"),
 ("M9 peaks baseline >= -> >", PS, "baseline_mask = (flattened_spectrum >= baseline).astype(\"int\")", "baseline_mask = (flattened_spectrum > baseline).astype(\"int\")"),
 ("M10 rfftfreq window length off by one", PS, "self.frequency = np.fft.rfftfreq(num_points_per_window, 1.0 / sample_rate)", "self.frequency = np.fft.rfftfreq(num_points_per_window, 1.0 / sample_rate) * (num_points_per_window / (num_points_per_window + 1))"),
 ("M11 downsample keeps a partial block (round up)", UT, "return int(math.floor(size / n)) * n", "return int(math.floor(size / n)) * n if size % n == 0 or size < n else int(math.floor(size / n) - 1) * n"),
 ("M12 windows overlap by one sample", PS, "data[chunk_idx * num_points_per_window : (chunk_idx + 1) * num_points_per_window]", "data[max(chunk_idx * num_points_per_window - 1, 0) : max(chunk_idx * num_points_per_window - 1, 0) + num_points_per_window]"),
 ("M13 peaks upper edge without +df", PS, "self.frequency[x[1]] + df)", "self.frequency[x[1]])"),
]
only = sys.argv[1:] 
for name, f, a, b in M:
    if only and not any(name.startswith(o + " ") for o in only):
        continue
    subprocess.run(["git", "-C", WT, "checkout", "-q", "--", "."], check=True)
    p = os.path.join(WT, f)
    s = open(p).read()
    assert s.count(a) == 1, (name, s.count(a))
    open(p, "w").write(s.replace(a, b))
    env = dict(os.environ, VERIF_REPO=WT)
    r = subprocess.run(["./check", "C10", "--tier", "quick"], cwd="/tmp/vw/C10", env=env, capture_output=True, text=True)
    lines = [l for l in r.stdout.splitlines() if l.startswith(("VIOLATION", "C10 tier", "KNOWN", "INFRA"))]
    print(f"{name}: exit {r.returncode}")
    for l in lines[:4]:
        print("   ", l[:230])
subprocess.run(["git", "-C", WT, "checkout", "-q", "--", "."], check=True)
