#!/bin/sh
cd /tmp/vw/C10/scratch/parts
{ cat 00_head.lean; echo "namespace Verif.C10"; for f in [1-9]*.lean; do cat $f; done; echo "end Verif.C10"; } > /tmp/vw/C10/lean/Verif/Lemmas/C10.lean
