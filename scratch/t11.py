import sys, os, traceback
sys.path.insert(0,'/tmp/vw/C14/harness'); sys.path.insert(0,'/repo')
os.environ.setdefault("MPLBACKEND","Agg")
import warnings; warnings.filterwarnings("ignore")
import common, c14
rng = common.Rng(0).fork("c14-recover")
cs=[c14.recover_case(rng.fork(i), slow_ok=(i%10==0)) for i in range(300)]
n=0
for c in cs:
    ia = c14.impl(c)
    if "!post" in ia[0]:
        n+=1
        print([m["ctor"] for m in c["models"]], [o[-40:] for o in ia[0].split(";") if "!post" in o])
        if n==1:
            orig=c14.errname
            def en(e):
                traceback.print_exception(e); return orig(e)
            c14.errname=en; c14.impl(c); c14.errname=orig
