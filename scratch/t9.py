import sys; sys.path.insert(0,'/repo')
import numpy as np, traceback
import lumicks.pylake as lk
m = lk.efjc_force("DNA")
truth = {'kT': 4.11, 'DNA/Lp': 36.6, 'DNA/Lc': 6.13, 'DNA/St': 1081.0}
dm = lk.efjc_distance("DNA")
f = np.linspace(0.2, 30, 25)
d = dm(f, truth)
y = m(d, truth)
fit = lk.FdFit(m)
fit.add_data("d0", y, d)
fit.add_data("d1", y, d, params={"DNA/Lc": "DNA/Lc_1"})
fit["DNA/Lc"].value = 6.13; fit["DNA/Lc"].fixed = True
try:
    fit.fit()
    print(fit.params)
except Exception:
    traceback.print_exc()
