import sys, json, warnings
sys.path.insert(0, "/tmp/vw/C18/harness"); sys.path.insert(0, "/repo")
import numpy as np, tifffile
import builders_confocal as bc
from common import Rng
import lumicks.pylake as lk
rng = Rng(0)
iw = bc.infowave(4, 6, 2, lead_in=1, dead=2)
ch = {"red": bc.counts(rng, iw, "mixed"), "green": [-3]*len(iw), "blue": bc.counts(rng, iw, "mixed")}
def dump(fn):
    with tifffile.TiffFile(fn) as t:
        for p in t.pages:
            d = json.loads(p.description)
            print(p.shape, p.dtype, p.tags["DateTime"].value, {k: d[k] for k in d if k not in ("Center point (um)",)}, p.tags["Software"].value, p.tags.get("XResolution"), p.tags.get("YResolution"))
with bc.quiet():
    kymo = bc.make_kymo(iw, 4, ch)
    print(kymo.get_image()[...,1])
    for name, k in [("plain", kymo), ("ds", kymo.downsampled_by(position_factor=2, reduce=np.mean)), ("dst", kymo.downsampled_by(time_factor=2)), ("crop", kymo.crop_by_distance(0.1, 0.3)), ("slice", kymo["0.1ms":"0.45ms"]), ("flip", kymo.flip()), ("kbp", kymo.calibrate_to_kbp(10.0))]:
        try:
            k.export_tiff("/tmp/vw/C18/scratch/k.tiff")
            print(name); dump("/tmp/vw/C18/scratch/k.tiff")
            print(k.get_image()[...,0])
        except Exception as e:
            print(name, type(e).__name__, e)
    try:
        kymo.export_tiff("/tmp/vw/C18/scratch/k.tiff", dtype=np.uint8)
    except Exception as e: print(type(e).__name__)
    kymo.export_tiff("/tmp/vw/C18/scratch/k.tiff", dtype=np.uint8, clip=True)
    print(tifffile.imread("/tmp/vw/C18/scratch/k.tiff")[...,1])
    iw = bc.infowave(3, 6, 2, lead_in=1, dead=2, L=2, frame_dead=3, tail=2)
    ch = {"red": bc.counts(rng, iw, "mixed"), "green": bc.counts(rng, iw, "mixed"), "blue": None}
    for fast, slow in ((0,1),(1,0)):
        scan = bc.make_scan(iw, 3, 2, ch, fast_axis=fast, slow_axis=slow)
        print(scan.get_image().shape)
        for name, s in [("plain", scan), ("f1", scan[1]), ("f12", scan[1:3]), ("crop", scan.crop_by_pixels(1, 3, 0, 2)), ("idxcrop", scan[0:2, 0:1, 1:3])]:
            try:
                s.export_tiff("/tmp/vw/C18/scratch/s.tiff"); print(name, s.get_image().shape); dump("/tmp/vw/C18/scratch/s.tiff")
                st = lk.ImageStack("/tmp/vw/C18/scratch/s.tiff")
                print(st.get_image().shape, st.frame_timestamp_ranges(), st.frame_timestamp_ranges(include_dead_time=True), s.frame_timestamp_ranges(), s.frame_timestamp_ranges(include_dead_time=True))
            except Exception as e:
                import traceback; traceback.print_exc()
                print(name, type(e).__name__, e)
