import sys, json, warnings
sys.path.insert(0, "/tmp/vw/C18/harness"); sys.path.insert(0, "/repo")
import numpy as np, tifffile
import builders_confocal as bc
from common import Rng
rng = Rng(0)
iw = bc.infowave(3, 4, 2, lead_in=1, dead=2, L=2, frame_dead=3, tail=2)
ch = {"red": bc.counts(rng, iw, "mixed"), "green": bc.counts(rng, iw, "big"), "blue": None}
with bc.quiet():
    scan = bc.make_scan(iw, 3, 2, ch)
    img = scan.get_image()
    print(img.dtype, img.shape, scan.num_frames)
    print(scan.frame_timestamp_ranges(), scan.frame_timestamp_ranges(include_dead_time=True))
    for dt in (np.float32, np.uint8, np.uint16):
        try:
            scan.export_tiff("/tmp/vw/C18/scratch/s.tiff", dtype=dt)
            print("ok", dt)
        except Exception as e:
            print(type(e).__name__, e)
    scan.export_tiff("/tmp/vw/C18/scratch/s.tiff", dtype=np.uint8, clip=True)
    with tifffile.TiffFile("/tmp/vw/C18/scratch/s.tiff") as t:
        for p in t.pages:
            print(p.shape, p.dtype, p.tags["DateTime"].value, p.description[:2000], p.tags["Software"].value, p.tags.get("XResolution"), p.tags.get("ResolutionUnit"))
            print(p.asarray()[...,1])
    print(img[...,1])
    kymo = bc.make_kymo(bc.infowave(3,4,2,lead_in=1,dead=2), 3, {"red": bc.counts(rng, bc.infowave(3,4,2,lead_in=1,dead=2)), "green":None,"blue":None})
    print(kymo.get_image().shape, kymo.get_image().dtype)
    kymo.export_tiff("/tmp/vw/C18/scratch/k.tiff")
    with tifffile.TiffFile("/tmp/vw/C18/scratch/k.tiff") as t:
        for p in t.pages:
            print(p.shape, p.dtype, p.tags["DateTime"].value, p.description, p.tags["Software"].value)
    print(kymo.line_timestamp_ranges(), kymo.line_timestamp_ranges(include_dead_time=True))
    import lumicks.pylake as lk
    st = lk.ImageStack("/tmp/vw/C18/scratch/k.tiff")
    print(st.frame_timestamp_ranges(), st.frame_timestamp_ranges(include_dead_time=True), st.pixelsize_um, st.get_image().shape)
    st.export_tiff("/tmp/vw/C18/scratch/k2.tiff")
    with tifffile.TiffFile("/tmp/vw/C18/scratch/k2.tiff") as t:
        for p in t.pages:
            print(p.shape, p.dtype, p.tags["DateTime"].value, p.description, p.tags["Software"].value)
