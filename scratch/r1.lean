import Verif.Model.C10
import Verif.NumReal
import Mathlib.Tactic.Ring
import Mathlib.Tactic.FieldSimp
import Mathlib.Tactic.NormNum.OfScientific
namespace Verif.C10
open Verif

theorem ofNat'_real (n : Nat) : (ofNat' n : ℝ) = (n : ℝ) := by
  unfold ofNat'
  simp only [OfScientific.ofScientific, Rat.ofScientific_false_def, Nat.pow_zero, Nat.mul_one]
  norm_cast

theorem rsum_real (l : List ℝ) : rsum l = l.sum := by
  induction l with
  | nil => simp [rsum]; norm_num
  | cons x xs ih => simp [rsum, ih]

example (a b : ℝ) : RealLike.sq a = a * a := rfl
example (fs : ℝ) (npw : Nat) : scaling fs npw = 2 / fs / npw := by
  unfold scaling
  rw [ofNat'_real]
  norm_num
end Verif.C10
