import sys, os
sys.path.insert(0, "/tmp/vw/C03/harness"); 
import common
sys.path.insert(0, common.REPO)
import c03, time
rng = common.Rng(int(os.environ.get("VERIF_SEED","0")))
tier = sys.argv[1] if len(sys.argv)>1 else "quick"
cs = list(c03.cases(tier, rng))
print(len(cs))
t=time.time()
res, ti, tm = common.evaluate(c03, cs)
print("impl", ti, "model", tm)
bad=[r for r in res if common.failing(r)]
print("failing", len(bad))
seen=set()
for r in bad:
    key=(r["case"]["op"], r["case"].get("stream"), tuple(r["disagree"]), (r["clause"] or "")[:25])
    if key in seen: continue
    seen.add(key)
    print(key); print(" case", {k:v for k,v in r["case"].items()}); 
    for i in r["disagree"]: print("  ", i, "impl", r["impl"][i][:150], "| model", r["model"][i][:150])
    print("  clause", r["clause"])
    if len(seen)>25: break
