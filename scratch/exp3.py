import sys, json, warnings, traceback
sys.path.insert(0, "/tmp/vw/C18/harness"); sys.path.insert(0, "/repo")
import numpy as np, tifffile
import builders_confocal as bc
from common import Rng
import lumicks.pylake as lk
rng = Rng(0)
def tryexp(name, f):
    try:
        o = f()
        o.export_tiff("/tmp/vw/C18/scratch/e.tiff")
        with tifffile.TiffFile("/tmp/vw/C18/scratch/e.tiff") as t:
            print(name, "ok", [(p.shape, p.tags["DateTime"].value) for p in t.pages])
    except Exception as e:
        tb = traceback.extract_tb(e.__traceback__)[-1]
        print(name, type(e).__name__, e, f"{tb.filename}:{tb.lineno}")
with bc.quiet():
    iw = bc.infowave(4, 1, 2, lead_in=1, dead=2)
    ch = {"red": bc.counts(rng, iw), "green": None, "blue": None}
    tryexp("kymo 1 line", lambda: bc.make_kymo(iw, 4, ch))
    iw = bc.infowave(1, 3, 2, lead_in=1, dead=2)
    ch = {"red": bc.counts(rng, iw), "green": None, "blue": None}
    tryexp("kymo 1 pixel", lambda: bc.make_kymo(iw, 1, ch))
    iw = bc.infowave(4, 3, 2, lead_in=1, dead=2)
    ch = {"red": bc.counts(rng, iw), "green": None, "blue": None}
    tryexp("kymo crop to 1 px", lambda: bc.make_kymo(iw, 4, ch).crop_by_distance(0.1, 0.2))
    tryexp("kymo slice to 1 line", lambda: bc.make_kymo(iw, 4, ch)["0.1ms":"0.2ms"])
    k = bc.make_kymo(iw, 4, ch)
    print(k.line_time_seconds, k.duration)
    k2 = k["0.1ms":"0.2ms"]; print(k2.get_image().shape)
    iw = bc.infowave(3, 6, 2, lead_in=1, dead=2, L=2, frame_dead=3, tail=2)
    ch = {"red": bc.counts(rng, iw, "mixed"), "green": bc.counts(rng, iw, "mixed"), "blue": None}
    for fast, slow in ((0,1),(1,0)):
        scan = bc.make_scan(iw, 3, 2, ch, fast_axis=fast, slow_axis=slow)
        print(scan.get_image().shape)
        tryexp("scan rows 0:1", lambda: scan[:, 0:1, :])
        tryexp("scan cols 0:1", lambda: scan[:, :, 0:1])
        tryexp("scan 1 frame rows 0:1", lambda: scan[0, 0:1, :])
        tryexp("scan 1 frame cols 0:1", lambda: scan[0, :, 0:1])
    iw = bc.infowave(1, 4, 2, lead_in=1, dead=2, L=2, frame_dead=3, tail=2)
    ch = {"red": bc.counts(rng, iw, "mixed"), "green": bc.counts(rng, iw, "mixed"), "blue": None}
    tryexp("scan P=1", lambda: bc.make_scan(iw, 1, 2, ch))
    iw = bc.infowave(2, 2, 2, lead_in=1, dead=2, L=1, frame_dead=3, tail=2)
    ch = {"red": bc.counts(rng, iw, "mixed"), "green": bc.counts(rng, iw, "mixed"), "blue": None}
    tryexp("scan L=1", lambda: bc.make_scan(iw, 2, 1, ch))
