import sys, os, json
sys.path.insert(0, "/tmp/vw/C18/harness")
import common
sys.path.insert(0, common.REPO)
os.environ.setdefault("MPLBACKEND", "Agg")
import c18
tier = sys.argv[1] if len(sys.argv) > 1 else "quick"
seed = int(sys.argv[2]) if len(sys.argv) > 2 else 0
cases = list(c18.cases(tier, common.Rng(seed)))
res, ti, tm = common.evaluate(c18, cases)
print(len(cases), "cases", round(ti,1), round(tm,1))
seen = {}
for r in res:
    if r["clause"] or r["disagree"]:
        key = ((r["clause"] or "")[:60], tuple(r["disagree"]), r["case"]["kind"])
        seen.setdefault(key, []).append(r)
for k, v in seen.items():
    r = v[0]
    c = r["case"]
    print("====", len(v), k)
    print(" clause:", (r["clause"] or "")[:300])
    print(" case:", json.dumps({a: b for a, b in common.clean(c).items() if a not in ("channels", "values")})[:500])
    for i in r["disagree"]:
        print("  op", r["ops"][i][:200]); print("  impl ", r["impl"][i][:200]); print("  model", r["model"][i][:200])
