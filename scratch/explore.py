import sys, json, warnings
sys.path.insert(0, "/repo")
import numpy as np
from lumicks.pylake.low_level import create_confocal_object
from lumicks.pylake.channel import Slice, Continuous
warnings.simplefilter("ignore")

def meta(axes, num_frames=0):
    return json.dumps({"value0": {"cereal_class_version": 1, "fluorescence": True, "force": False,
      "scan count": num_frames,
      "scan volume": {"center point (um)": {"x": 0, "y": 0, "z": 0}, "cereal_class_version": 1,
        "pixel time (ms)": 0.2, "scan axes": [{"axis": a, "cereal_class_version": 1, "num of pixels": n, "pixel size (nm)": 100, "scan time (ms)": 0, "scan width (um)": n*0.1} for a, n in axes]}}})

def wave(lead, k, P, L, dead, frames=1, framedead=0, trunc=None):
    iw = [0]*lead
    for f in range(frames):
        for l in range(L):
            for p in range(P):
                iw += [1]*(k-1) + [2]
            iw += [0]*dead
        iw += [0]*framedead
    if trunc is not None: iw = iw[:trunc]
    return np.array(iw, dtype=np.uint8)

def build(iw, start, dt, axes, num_frames=0, counts=None):
    n = len(iw)
    if counts is None: counts = np.arange(1, n+1)
    mk = lambda d: Slice(Continuous(np.asarray(d), start, dt))
    return create_confocal_object("x", mk(iw), meta(axes, num_frames), mk(counts), mk(counts), mk(counts))

if __name__ == "__main__":
    iw = wave(2, 2, 3, 4, 3)
    print(iw)
    k = build(iw, 1000, 10, [(0, 3)])
    print(k.timestamps)
    print(k.line_timestamp_ranges(), k.line_timestamp_ranges(include_dead_time=True))
    print(k.line_time_seconds, k.pixel_time_seconds, k.duration, k.get_image("red"))
    # scan
    iw = wave(2, 2, 3, 2, 1, frames=2, framedead=2)
    s = build(iw, 1000, 10, [(0, 3), (1, 2)])
    print(s.timestamps.shape, s.timestamps)
    print(s.frame_timestamp_ranges(), s.frame_timestamp_ranges(include_dead_time=True))
    # truncated single frame
    iw = wave(2, 2, 3, 2, 1, frames=1, framedead=2, trunc=2+2*3+1+2*2)
    s = build(iw, 1000, 10, [(0, 3), (1, 2)])
    print(iw, s.timestamps, s.frame_timestamp_ranges(), s.frame_timestamp_ranges(include_dead_time=True))
